"""C06 - references are equal, and hash equally, exactly when they denote the same path.

pool      per case: generated access paths (depth 1..4, item/attribute steps, adversarial keys)
          plus systematically derived near-misses of each (same text other type, item vs
          attribute, prefix / extension, other label, 1-tuple of a key, -1 vs -2, a single
          string key that SPELLS the rest of a longer path); ALL ordered pairs are checked
families  10^5 similar keys in one dict/set (collision behaviour of the 32-bit compiled hash)
exprs     terms of identical structure over independently built refs
Oracle    structural path equality of the harness' own path tuples.
"""
import itertools
import unicodedata

from hypothesis import strategies as st

from vlib import expr as E
from vlib import gen as G
from vlib.common import Failure, drive

RULE = ("pool of 20..50 paths per case (generated + derived near-misses), every ordered pair checked: same path => "
        "==, equal hash, same dict and set entry; different path => !=, distinct dict/set entries (hash may "
        "collide).  Non-trivial pair = printed forms within edit distance 2 or keys equal as text but different in "
        "type/kind; distinct by pair digest.  Families: 10^5 refs in one dict, each must resolve to its own entry.")
ASSUMPTIONS = [
    "cross-type equal keys (1 / 1.0 / True), str subclasses and non-identifier attribute names are outside the "
    "stated key space and never generated",
    "hash inequality of ONE pair of different paths is not required (the compiled hash has 32 bits and collides by "
    "design); separation is required through == and dict/set membership.  For a structured family of N distinct paths "
    "at least 99 % distinct hash values are required (an ideal 32-bit hash gives > 99.99 % at N = 10^5): a hash under "
    "which whole families collide systematically defeats the 'hash equally exactly when same path' clause at scale",
]

# identifiers include names that are NOT stable under unicode NFKC normalisation next to their normal forms (micro sign /
# greek mu, fi ligature / "fi", ohm sign / omega, e + combining acute / e-acute): getattr() does not normalise, so they
# are different attributes and different paths
IDENT = st.sampled_from(["a", "b", "x", "k1", "_p", "name", "ä", "ref", "d", "A",
                         "\u00b5", "\u03bc", "\ufb01", "fi", "\u2126", "\u03a9", "e\u0301", "\u00e9", "\u017f", "s"])
LABELS = st.sampled_from(["d", "e", "ref", "v", "_", "dd"])
ADV_STR = st.one_of(
    st.sampled_from(["a", "b", "", " ", "a b", "a'b", 'a"b', "a'\"b", "a]", "['a']", "a']['b", "a'].b['c",
                     "a.b", ".a", "1", "-1", "1.5", "(1,)", "(1, 'a')", "d", "ref", "ref_a", "d['a']", "é", "日本",
                     "\\", "\\'", "\n", "a\\'b", "None", "True"]),
    st.text(alphabet="ab'\"[].\\ 1", min_size=0, max_size=6),
)
INT_KEYS = st.sampled_from([0, 1, 2, -1, -2, 10, 2 ** 40, -2 ** 31, 7])
FLOAT_KEYS = st.sampled_from([0.5, 1.5, -1.5, 2.25, 1e-3, 1e20 + 0.5, 3.14])
scalar_key = st.one_of(ADV_STR, INT_KEYS, FLOAT_KEYS)
tuple_key = st.one_of(st.tuples(scalar_key), st.tuples(scalar_key, scalar_key), st.just(()),
                      st.tuples(st.tuples(INT_KEYS), ADV_STR))
any_key = st.one_of(scalar_key, scalar_key, tuple_key)
step = st.one_of(st.tuples(st.just("i"), any_key), st.tuples(st.just("i"), any_key),
                 st.tuples(st.just("a"), IDENT))
path = st.tuples(LABELS, st.lists(step, min_size=1, max_size=4).map(tuple))


UNSTABLE = {"\u03bc": ["\u00b5"], "fi": ["\ufb01"], "\u03a9": ["\u2126"], "\u00e9": ["e\u0301"], "s": ["\u017f"]}


def key_ok(k):
    """keys inside the stated space: no integral floats, no bools"""
    if isinstance(k, bool):
        return False
    if isinstance(k, float):
        return k == k and k not in (float("inf"), float("-inf")) and not k.is_integer()
    if isinstance(k, tuple):
        return all(key_ok(x) for x in k)
    return isinstance(k, (str, int))


def same_key(a, b):
    if type(a) is not type(b):
        return False
    if isinstance(a, tuple):
        return len(a) == len(b) and all(same_key(x, y) for x, y in zip(a, b))
    return a == b


def same_path(p, q):
    return p[0] == q[0] and len(p[1]) == len(q[1]) and all(
        s[0] == t[0] and same_key(s[1], t[1]) for s, t in zip(p[1], q[1]))


def ptext(p):
    """harness-side rendering (for reports and the non-triviality rule)"""
    s = p[0]
    for kind, k in p[1]:
        s += f"[{k!r}]" if kind == "i" else f".{k}"
    return s


def tail_text(steps):
    s = ""
    for kind, k in steps:
        s += f"[{k!r}]" if kind == "i" else f".{k}"
    return s


def near_misses(p):
    label, steps = p
    out = []
    n = len(steps)
    for i, (kind, k) in enumerate(steps):
        def repl(newstep):
            return (label, steps[:i] + (newstep,) + steps[i + 1:])
        if kind == "i":
            if isinstance(k, int):
                out.append(repl(("i", str(k))))
                out.append(repl(("i", (k,))))
                out.append(repl(("i", k + 0.5)))
                out.append(repl(("i", -k if k else -1)))
                out.append(repl(("i", k - 1)))
            elif isinstance(k, str):
                if k.isidentifier():
                    out.append(repl(("a", k)))
                out.append(repl(("i", (k,))))
                out.append(repl(("i", k + " ")))
                out.append(repl(("i", k + "'")))
                try:
                    out.append(repl(("i", int(k))))
                except ValueError:
                    pass
            elif isinstance(k, float):
                out.append(repl(("i", repr(k))))
                out.append(repl(("i", (k,))))
            elif isinstance(k, tuple):
                out.append(repl(("i", repr(k))))
                if len(k) == 1:
                    out.append(repl(("i", k[0])))
                out.append(repl(("i", k + (0,))))
        else:
            out.append(repl(("i", k)))
            out.append(repl(("a", k + "_")))
            for form in ("NFKC", "NFD", "NFC"):
                kk = unicodedata.normalize(form, k)
                if kk != k and kk.isidentifier():
                    out.append(repl(("a", kk)))
                    out.append(repl(("i", kk)))
            for other in UNSTABLE.get(k, ()):
                out.append(repl(("a", other)))
    # prefix / extension / other label
    if n > 1:
        out.append((label, steps[:-1]))
    out.append((label, steps + (("i", 0),)))
    out.append((label + "x", steps))
    out.append(("x" + label, steps))
    # one string key that spells the rest of the path
    for i in range(n - 1):
        txt = tail_text(steps[i:])
        if txt.startswith("['") and txt.endswith("']"):
            out.append((label, steps[:i] + (("i", txt[2:-2]),)))
        if txt.startswith("[\"") and txt.endswith("\"]"):
            out.append((label, steps[:i] + (("i", txt[2:-2]),)))
    # label + first attribute merged / label spelled by a key
    if steps and steps[0][0] == "a":
        out.append((label + "." + steps[0][1] if False else label + steps[0][1], steps[1:] or (("i", 0),)))
    return [q for q in out if q[1] and all(key_ok(k) if kind == "i" else True for kind, k in q[1])
            and q[0].isidentifier()]


def edit_close(a, b):
    """cheap bound: printed forms differ in <= 2 characters"""
    if abs(len(a) - len(b)) > 2:
        return False
    if len(a) == len(b):
        return sum(x != y for x, y in zip(a, b)) <= 2
    # strip common prefix/suffix
    i = 0
    while i < min(len(a), len(b)) and a[i] == b[i]:
        i += 1
    j = 0
    while j < min(len(a), len(b)) - i and a[-1 - j] == b[-1 - j]:
        j += 1
    return max(len(a), len(b)) - i - j <= 2


class Builder:
    def __init__(self, data=None):
        import xdeps
        self.m = xdeps.Manager()
        self.roots = {}
        self.data = data or {}

    def root(self, label):
        if label not in self.roots:
            self.roots[label] = self.m.ref(self.data.get(label, {}), label)
        return self.roots[label]

    def ref(self, p):
        r = self.root(p[0])
        for kind, k in p[1]:
            r = r[k] if kind == "i" else getattr(r, k)
        return r


def check_pool(ctx, pool, b=None):
    b = b or Builder()
    first = [b.ref(p) for p in pool]
    second = [b.ref(p) for p in pool]       # built independently
    texts = [ptext(p) for p in pool]
    for i, j in itertools.product(range(len(pool)), repeat=2):
        p, q = pool[i], pool[j]
        a, c = first[i], second[j]
        same = same_path(p, q)
        eq = (a == c)
        ne = (a != c)
        heq = hash(a) == hash(c)
        dget = {a: 1}.get(c)
        sin = c in {a}
        nt = (i != j) and (edit_close(texts[i], texts[j]) or texts[i] == texts[j])
        ctx.stats.case({"a": texts[i], "b": texts[j], "same_path": same}, nt,
                       ["pair", "pair:same" if same else "pair:different"] + (["pair:near-miss"] if nt else []))
        if same:
            if not (eq is True and not ne and heq and dget == 1 and sin):
                what = "eq" if eq is not True or ne else ("hash" if not heq else "dict")
                return Failure(f"C06:same-path-not-identified:{what}",
                               {"a": texts[i], "b": texts[j], "eq": repr(eq), "hash_equal": heq,
                                "dict_get": dget, "in_set": sin}), (p, q)
        else:
            if eq is not False or not ne or dget is not None or sin:
                what = "eq" if (eq is not False or not ne) else "dict"
                return Failure(f"C06:different-paths-conflated:{what}",
                               {"a": texts[i], "b": texts[j], "eq": repr(eq), "hash_equal": heq,
                                "dict_get": dget, "in_set": sin, "str_a": str(a), "str_b": str(c)}), (p, q)
    # container of the whole pool
    distinct = []
    for p in pool:
        if not any(same_path(p, q) for q in distinct):
            distinct.append(p)
    dct = {}
    for p in pool:
        dct[b.ref(p)] = ptext(p)
    if len(dct) != len(distinct):
        return Failure("C06:dict-size", {"entries": len(dct), "distinct_paths": len(distinct)}), None
    return None, None


def enc_path(p):
    def ek(k):
        if isinstance(k, tuple):
            return ["t", [ek(x) for x in k]]
        if isinstance(k, float):
            return ["f", k.hex()]
        if isinstance(k, int):
            return ["n", str(k)]
        return ["s", k]
    return [p[0], [[kind, ek(k)] for kind, k in p[1]]]


def dec_path(x):
    def dk(k):
        if k[0] == "t":
            return tuple(dk(y) for y in k[1])
        if k[0] == "f":
            return float.fromhex(k[1])
        if k[0] == "n":
            return int(k[1])
        return k[1]
    return (x[0], tuple((kind, dk(k)) for kind, k in x[1]))


@st.composite
def pools(draw):
    base = draw(st.lists(path, min_size=4, max_size=9))
    base = [p for p in base if all(key_ok(k) if kind == "i" else True for kind, k in p[1])]
    pool = []
    for p in base:
        pool.append(p)
        nm = near_misses(p)
        if nm:
            picks = draw(st.lists(st.integers(0, len(nm) - 1), min_size=2, max_size=6))
            for ix in picks:
                pool.append(nm[ix])
    return pool[:50]


def run_pools(ctx):
    n = ctx.n(60, 400)

    def body(pool):
        if len(pool) < 2:
            return None
        f, pair = check_pool(ctx, pool)
        if f is not None:
            f.case = {"kind": "pool", "paths": [enc_path(p) for p in (list(pair) if pair else pool)]}
        return f
    drive(ctx, pools(), body, n, salt=1, label="C06 pools")


def run_live(ctx):
    """paths over LIVE containers: the parents of the steps exist and hold lists, tuples, strings, dicts and objects
    of known length - a reference is a path, not the element it currently designates: d['lst'][-1] and d['lst'][2]
    are different references although they read the same element today, and the same path is the same reference
    before and after the container changes"""
    if ctx.shard != 0:
        return

    class O:
        pass
    o = O()
    o.seq = [1.0, 2.0, 3.0]
    o.k = 5
    data = {"d": {"lst": [0, 1, 2], "n": {"lst": [5, 6, 7, 8], "t": (1, 2), 0: "zero", -1: "minus one"}, "s": "abc",
                  "o": o, 2: [9, 8], "e": []}}
    ints = [-4, -3, -2, -1, 0, 1, 2, 3]
    pool = []
    for k in ints:
        pool.append(("d", (("i", "lst"), ("i", k))))
        pool.append(("d", (("i", "n"), ("i", "lst"), ("i", k))))
        pool.append(("d", (("i", "n"), ("i", "t"), ("i", k))))
        pool.append(("d", (("i", "s"), ("i", k))))
        pool.append(("d", (("i", "o"), ("a", "seq"), ("i", k))))
        pool.append(("d", (("i", "n"), ("i", k))))
        pool.append(("d", (("i", 2), ("i", k))))
        pool.append(("d", (("i", "e"), ("i", k))))
    pool += [("d", (("i", "lst"),)), ("d", (("i", "o"), ("a", "k"))), ("d", (("i", "o"), ("i", "k")))]
    for part in range(0, len(pool), 24):
        b = Builder(data)
        f, pair = check_pool(ctx, pool[part:part + 24] + pool[:6], b)
        if f is not None:
            f.sig = f.sig + ":live-container"
            ctx.fail(f, {"kind": "pool", "paths": [enc_path(p) for p in (list(pair) if pair else pool[part:part + 24])], "live": True})
            return
    # the same path before and after the containers change length
    b = Builder(data)
    before = [b.ref(p) for p in pool]
    hb = [hash(r) for r in before]
    data["d"]["lst"].append(3)
    data["d"]["n"]["lst"].pop()
    o.seq.insert(0, 0.0)
    data["d"]["e"].append(1)
    after = [b.ref(p) for p in pool]
    try:
        for p, r0, h0, r1 in zip(pool, before, hb, after):
            ctx.stats.case({"path": ptext(p), "rebuilt": "after the container changed length"}, True, ["live-container:rebuilt-after-change"])
            if not (r0 == r1) or r0 != r1 or h0 != hash(r1) or {r0: 1}.get(r1) != 1 or str(r0) != str(r1):
                ctx.fail(Failure("C06:same-path-not-identified:after-container-changed",
                                 {"path": ptext(p), "built_before": str(r0), "built_after": str(r1), "eq": repr(r0 == r1),
                                  "hash_equal": h0 == hash(r1)}),
                         {"kind": "live", "path": enc_path(p)})
                return
    finally:
        data["d"]["lst"].pop()
        data["d"]["n"]["lst"].append(8)
        o.seq.pop(0)
        data["d"]["e"].pop()


def run_family(ctx):
    """large families of similar keys in one dict / set"""
    if ctx.shard not in range(9):
        return
    N = 100000 if ctx.shard < 2 else 30000
    b = Builder()
    r = b.root("d")
    perm_keys = ["a", "b", 0, 1, -1, "k1", (0, 1), 0.5]
    perms = list(itertools.permutations(perm_keys, 4))          # 1680 paths over the same multiset of steps, reordered
    if ctx.shard == 4:
        N = len(perms)
    fam = {
        0: lambda i: (("i", f"bend{i}"),),
        1: lambda i: (("i", "seq"), ("i", i), ("a", "k1")),
        2: lambda i: (("i", i - N // 2),),
        3: lambda i: (("i", (i % 300, i // 300)), ("i", "x")),
        # structured families: the same steps in another order, a step applied twice, a grid of index pairs, the same
        # key once as item and once as attribute - a hash that combines the steps commutatively collapses them
        4: lambda i: tuple(("i", k) for k in perms[i]),
        5: lambda i: (("i", i), ("i", i)) if i % 2 else (("i", f"q{i}"), ("i", f"q{i}")),
        6: lambda i: (("i", "m"), ("i", i % 173), ("i", i // 173)),
        7: lambda i: (("i", i), ("a", "k"), ("i", i)),
        8: lambda i: (("a", f"n{i}"), ("i", f"n{i}")) if i % 2 else (("i", f"n{i}"), ("a", f"n{i}")),
    }[ctx.shard]
    refs = [b.ref(("d", fam(i))) for i in range(N)]
    hashes = {}
    coll = 0
    for i, x in enumerate(refs):
        h = hash(x)
        if h in hashes:
            coll += 1
        hashes[h] = i
    rep = {"family": ptext(("d", fam(0))) + " .. " + ptext(("d", fam(N - 1))), "n": N, "hash_collisions": coll}
    ctx.stats.case(rep, True, ["family", "family:collisions>0" if coll else "family:no-collision"])
    ctx.stats.extra["family_refs"] = N
    ctx.stats.extra["family_hash_collisions"] = coll
    ctx.stats.extra[f"family_{ctx.shard}_distinct_hash_fraction"] = round(len(hashes) / N, 6)
    if len(hashes) < 0.99 * N:
        ctx.fail(Failure("C06:family-hashes-collide-systematically",
                         dict(rep, distinct_hash_values=len(hashes), required=int(0.99 * N))),
                 {"kind": "family", "shard": ctx.shard})
        return
    # (the dict is built only now: with systematically colliding hashes it would take quadratic time)
    dct = {x: i for i, x in enumerate(refs)}
    st_ = set(refs)
    if len(dct) != N or len(st_) != N:
        ctx.fail(Failure("C06:family-conflated", dict(rep, dict_entries=len(dct), set_entries=len(st_))),
                 {"kind": "family", "shard": ctx.shard})
        return
    # each independently rebuilt ref resolves to its own entry
    for i in range(0, N, 7):
        if dct.get(b.ref(("d", fam(i)))) != i:
            ctx.fail(Failure("C06:family-lookup", dict(rep, index=i)), {"kind": "family", "shard": ctx.shard})
            return


LEAVES = [E.loc("d", ("i", "a")), E.loc("d", ("i", "n"), ("i", -1)), E.loc("d", ("i", "n"), ("i", -2)),
          E.loc("e", ("a", "x")), E.loc("d", ("i", "a'b")), E.loc("d", ("i", 1)), E.loc("d", ("i", "1"))]
TG = G.TermGen(LEAVES, [E.loc("d", ("i", "s"))], {k: E.loc("F", ("i", k)) for k in ("add2", "scale")},
               [(E.loc("d", ("i", "n")), E.loc("d", ("i", "i0")))], lits=G.numbers(),
               ops=list(E.BINOPS), builtins=["abs", "round", "floor", "ceil", "trunc"], unary=list(E.UNOPS),
               allow_eq=True, allow_divmod=True)


def expr_pair(ctx, ast):
    import xdeps
    m = xdeps.Manager()
    refs1 = {"d": m.ref({}, "d"), "e": m.ref({}, "e"), "F": m.ref({}, "F")}
    m2 = xdeps.Manager()
    refs2 = {"d": m2.ref({}, "d"), "e": m2.ref({}, "e"), "F": m2.ref({}, "F")}
    try:
        a = E.build(ast, refs1)
        b = E.build(ast, refs2)
        c = E.build(ast, refs1)
    except Exception:
        ctx.stats.case({"term": E.render(ast)}, False, ["expr", "expr:build-raises"])
        return None
    if not E.is_ref(a):
        return None
    ctx.stats.case({"term": E.render(ast)}, E.n_ops(ast) >= 2, ["expr"])
    for x, y, how in ((a, c, "same manager"), (a, b, "other manager")):
        if not (x == y) or (x != y) or hash(x) != hash(y) or {x: 1}.get(y) != 1:
            return Failure("C06:identical-expressions-differ",
                           {"term": E.render(ast), "built": how, "eq": repr(x == y),
                            "hash_equal": hash(x) == hash(y)})
    return None


def run_exprs(ctx):
    n = ctx.n(120, 1500)

    def body(ast):
        f = expr_pair(ctx, ast)
        if f is not None:
            f.case = {"kind": "expr", "ast": ast}
        return f
    drive(ctx, TG.strategy(4), body, n, salt=2, label="C06 exprs")


def run(ctx):
    run_live(ctx)
    run_family(ctx)
    run_pools(ctx)
    run_exprs(ctx)


def replay(ctx, case):
    if case["kind"] == "live" or case.get("live"):
        ctx.shard = 0
        run_live(ctx)
        return None
    if case["kind"] == "pool":
        f, _ = check_pool(ctx, [dec_path(p) for p in case["paths"]])
        return f
    if case["kind"] == "expr":
        return expr_pair(ctx, case["ast"])
    if case["kind"] == "family":
        ctx.shard = case["shard"]
        run_family(ctx)
        return Failure(ctx.stats.failures[0]["sig"], ctx.stats.failures[0]["detail"]) if ctx.stats.failures else None
    raise ValueError(case["kind"])
