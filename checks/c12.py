"""C12 - a pickled manager restores to an independent, behaviourally identical copy.

A generated history builds a manager (expression tasks only; containers are picklable
dict / list / object subclasses and a dict of module-level functions); a decoration phase
adds definitions that together use every node class (binary, unary, literal, builtin with
and without parameters, call with positional / keyword arguments, nested item / attribute
refs, computed keys, deferred equality).  Then  copy = pickle.loads(pickle.dumps(manager)).

oracle   * the round trip succeeds;
         * the copy's definitions equal the original's: dump() text AND a structural
           read-back of every task's expression (class, operand order, parameters);
         * verify() passes on the copy and its four indices have exactly the supports
           derived from its tasks; its refs belong to the copy, its containers are distinct
           objects with equal contents;
         * follow-up assignments (values, expressions, in-place, unregister) applied to
           both keep both equal to the pull model after every step;
         * assignments applied to only one of them change that one (per its own model) and
           leave the other exactly as its own model says.
"""
import copy as _copy
import pickle

from hypothesis import strategies as st

from vlib import expr as E
from vlib import world as W
from vlib import histgen as H
from vlib.common import Failure, drive
from checks.c01 import xdeps_frame
from checks.c03 import check_indices

RULE = ("history of 2..20 operations + 2..6 decoration definitions (one node class each) -> pickle round trip -> 2..8 "
        "follow-ups, each applied to both managers, to the original only or to the copy only; both worlds compared with "
        "their own pull model after every step.  Non-trivial = the pickled manager has >= 3 tasks covering >= 2 node "
        "classes other than arithmetic binary and there is >= 1 follow-up that triggers a task; distinct by case digest.")
ASSUMPTIONS = [
    "containers are picklable (dict / list / object subclasses of the harness, a dict of module-level functions); only "
    "expression tasks (FunctionTask closures are not picklable by construction)",
    "known-finding class K1 is excluded by construction (same predicate as C01)",
    "definitions are compared as sets of (target, expression) pairs, not by order",
]

REQUIRED_CLASSES = ["node:builtin:abs", "node:builtin:round", "node:builtin:round+params", "node:builtin:divmod+params",
                    "node:call", "node:call+kwargs", "node:computed-key", "node:literal-expr", "node:un:-", "node:un:~",
                    "node:eq", "node:bin:arith", "fresh-vs-restored-node-compared", "follow-up:orig:setv", "follow-up:copy:setv", "follow-up:both:sete",
                    "default-container:items-and-attributes-mixed", "default-container:frozen-when-pickled",
                    "default-container:empty-when-pickled",
                    "default-container:setter-generated-before-pickling", "default-container:cycle:self",
                    "default-container:cycle:child-parent", "default-container:cycle:through-list"]

TEMPLATES = ["abs", "round0", "round1", "round_ref", "divmod", "divmod_ref", "floor", "ceil", "trunc", "neg", "pos",
             "invert", "eq", "neq", "litexpr", "call_pos", "call_kw", "call_kw_ref", "comp_item", "bitand", "shift",
             "cmp", "pow", "mod", "matmul_free"]


def template_ast(name, x, y, draw):
    """x, y: location ASTs of numeric leaves"""
    i0 = W.ast_loc(W.IDX_LEAF)
    k0 = W.ast_loc(W.KEY_LEAF)
    F = lambda n: W.ast_loc(W.L("F", W.I(n)))
    num = lambda: E.lit(draw(H.hist_numbers))
    if name == "abs":
        return ["bi", "abs", ["bin", "-", x, y], []]
    if name == "round0":
        return ["bi", "round", ["bin", "*", x, E.lit(1.5)], []]
    if name == "round1":
        return ["bi", "round", ["bin", "/", x, E.lit(3.0)], [E.lit(draw(st.integers(-1, 3)))]]
    if name == "round_ref":
        return ["bi", "round", ["bin", "/", x, E.lit(7.0)], [i0]]
    if name == "divmod":
        return ["bi", "divmod", x, [E.lit(draw(st.sampled_from([2, 3, 0.5, -4])))]]
    if name == "divmod_ref":
        return ["bi", "divmod", x, [["bin", "+", ["bi", "abs", y, []], E.lit(1)]]]
    if name in ("floor", "ceil", "trunc"):
        return ["bi", name, ["bin", "*", x, E.lit(0.75)], []]
    if name == "neg":
        return ["un", "-", ["bin", "+", x, y]]
    if name == "pos":
        return ["un", "+", x]
    if name == "invert":
        return ["un", "~", i0]
    if name == "eq":
        return ["eq", x, y if draw(st.booleans()) else num()]
    if name == "neq":
        return ["neq", x, y if draw(st.booleans()) else num()]
    if name == "litexpr":
        return ["bin", draw(st.sampled_from(["+", "*", "-"])), ["litexpr", num()], x]
    if name == "call_pos":
        return ["call", F("add2"), [x, y], []]
    if name == "call_kw":
        return ["call", F("scale"), [x], [["k", num()]]]
    if name == "call_kw_ref":
        return ["call", F("add2"), [x], [["y", ["bin", "*", y, E.lit(2)]]]]
    if name == "comp_item":
        if draw(st.booleans()):
            return ["bin", "+", ["item", W.ast_loc(W.L("d", W.I("l"))), i0], x]
        return ["bin", "-", ["item", W.ast_loc(W.L("d", W.I("n0"))), k0], x]
    if name == "bitand":
        return ["bin", draw(st.sampled_from(["&", "|", "^"])), i0, E.lit(draw(st.integers(0, 7)))]
    if name == "shift":
        return ["bin", draw(st.sampled_from(["<<", ">>"])), ["bin", "+", i0, E.lit(5)], E.lit(draw(st.integers(0, 3)))]
    if name == "cmp":
        return ["bin", draw(st.sampled_from(["<", "<=", ">", ">="])), x, y]
    if name == "pow":
        return ["bin", "**", ["bin", "*", x, E.lit(1.0)], E.lit(draw(st.sampled_from([2, 3, 0])))]
    if name == "mod":
        return ["bin", draw(st.sampled_from(["%", "//"])), x, E.lit(draw(st.sampled_from([3, 2.5, -7])))]
    if name == "matmul_free":
        return ["bin", "-", E.lit(draw(H.hist_numbers)), ["bin", "/", E.lit(2), x]]
    raise ValueError(name)


def decorate(g, draw, n):
    """add n template definitions on targets nothing reads"""
    m = g.model
    done = []
    start = draw(st.integers(0, 10 ** 6)) % len(TEMPLATES)
    stride = draw(st.sampled_from([1, 3, 7, 11]))
    for i in range(n):
        read = set()
        for t in m.tasks():
            read.update(t.reads)
        targets = [k for k in W.NUM_LEAVES if not any(W.related(k, r) for r in read)]
        if not targets:
            break
        t = draw(st.sampled_from(targets))
        forbidden = set(m.downstream_locs(t)) | {t}
        cands = [k for k in W.NUM_LEAVES if not any(W.related(k, f) for f in forbidden)]
        comp_ok = not any(W.related(c, f) for f in forbidden for c in
                          (W.L("d", W.I("l")), W.L("d", W.I("n0")), W.IDX_LEAF, W.KEY_LEAF))
        if len(cands) < 2:
            continue
        name = TEMPLATES[(start + i * stride) % len(TEMPLATES)]
        if name == "comp_item" and not comp_ok:
            name = "abs"
        x = W.ast_loc(draw(st.sampled_from(cands)))
        y = W.ast_loc(draw(st.sampled_from(cands)))
        ast = template_ast(name, x, y, draw)
        if g.try_def(t, ast):
            g.count_excl("K1: definition would close an ordering cycle through a shared container")
            continue
        if not g.push({"op": "sete", "loc": W.json_loc(t), "ast": ast, "template": name}):
            return False
        done.append(name)
    return True


@st.composite
def cases(draw, opts):
    g = H.Gen(draw, opts)
    n = draw(st.integers(2, opts.max_ops))
    alive = True
    for _ in range(n):
        if not g.step():
            alive = False
            break
    if alive:
        alive = decorate(g, draw, draw(st.integers(2, 6)))
    n_hist = len(g.ops)
    follow = []
    if alive and not g.raised:
        for _ in range(draw(st.integers(2, 8))):
            who = draw(st.sampled_from(["both", "both", "both", "orig", "copy"]))
            if who == "both":
                before = len(g.ops)
                ok = g.step(kinds={"setv", "setv", "sete", "inplace", "unreg"})
                for op in g.ops[before:]:
                    follow.append(dict(op, who="both"))
                del g.ops[before:]
                if not ok:
                    break
            else:
                op = g.mk_setv()
                follow.append(dict(op, who=who))
    c = g.case()
    c["ops"] = c["ops"][:n_hist]
    c["follow"] = follow
    return c


def node_classes(model):
    out = set()

    def walk(a):
        t = a[0]
        if t == "bin":
            out.add("bin:" + ("arith" if a[1] in "+-*/" else a[1]))
        elif t == "un":
            out.add("un:" + a[1])
        elif t == "bi":
            out.add("builtin:" + a[1] + ("+params" if a[3] else ""))
        elif t == "call":
            out.add("call" + ("+kwargs" if a[3] else ""))
        elif t == "item":
            out.add("computed-key")
        elif t in ("eq", "neq"):
            out.add(t)
        elif t == "litexpr":
            out.add("literal-expr")
        elif t == "loc":
            if len(a[2]) > 1:
                out.add("nested-ref:" + "".join(k for k, _ in a[2]))
        for s in E.subterms(a):
            walk(s)
    for ast in model.defs.values():
        walk(ast)
    return out


def culprit_hash(ast, refs, rest):
    """class of the smallest restored sub-node whose hash differs from the freshly built one"""
    from xdeps import refs as R

    def kids(o):
        # by class: refs answer hasattr() for ANY name (attribute access builds a new ref)
        if isinstance(o, R.BinOpExpr):
            out = [o._lhs, o._rhs]
        elif isinstance(o, R.UnaryOpExpr):
            out = [o._arg]
        elif isinstance(o, R.BuiltinRef):
            out = [o._arg] + list(o._params)
        elif isinstance(o, R.CallRef):
            out = [o._func] + list(o._args) + [v for _, v in o._kwargs]
        elif isinstance(o, R.MutableRef):
            out = [o._owner, o._key]
        else:
            out = []
        return [k for k in out if E.is_ref(k)]
    try:
        fresh = E.build(ast, refs, W.ATTR_ITEM_LABELS)
    except Exception:
        return type(rest).__name__
    fk, rk = kids(fresh), kids(rest)
    if len(fk) == len(rk):
        for f, r in zip(fk, rk):
            try:
                if hash(f) != hash(r) or not (f == r):
                    sub = E.unbuild(f)
                    return culprit_hash(sub, refs, r) if sub[0] != "unknown" else type(r).__name__
            except Exception:
                return type(r).__name__
    return type(rest).__name__


def defs_of(mgr):
    return {str(t.taskid): E.unbuild(t.expr) for t in mgr.tasks.values() if hasattr(t, "expr")}


def exec_case(ctx, case):
    init = H.dec_init(case)
    model = W.Model(init)
    real = W.Real(init)
    classes = set()
    rendered = {"history": W.render_case(case),
                "follow_ups": [f"[{op['who']}] {W.render_op(op)}" for op in case["follow"]]}

    def finish(f, nt=False):
        ctx.stats.case(rendered, nt, ["pickle"] + sorted(classes))
        return f

    broken = False
    for i, op in enumerate(case["ops"]):
        mexc = rexc = None
        try:
            model.apply(op)
        except Exception as e:
            mexc = e
        try:
            real.apply(op)
        except Exception as e:
            rexc = e
        if mexc is not None:
            classes.add("python-raises-before-pickle")
            broken = True       # the update was interrupted: contents are compared copy-vs-original only
            break
        if rexc is not None:
            # C01's business; here the manager simply is not "reachable"
            classes.add("xdeps-raises-before-pickle")
            return finish(None)
    ncls = node_classes(model)
    for c in ncls:
        classes.add("node:" + c)
    where = {"history": rendered["history"]}
    # ---- the round trip
    try:
        blob = pickle.dumps(real.m)
    except BaseException as e:
        if isinstance(e, (KeyboardInterrupt, SystemExit)):
            raise
        return finish(Failure(f"C12:dumps-raises:{type(e).__name__}" + ("" if isinstance(e, RecursionError) else ":" + xdeps_frame(e)),
                              dict(where, raised=repr(e)[:200], node_classes=sorted(ncls))), True)
    try:
        m2 = pickle.loads(blob)
    except BaseException as e:
        if isinstance(e, (KeyboardInterrupt, SystemExit)):
            raise
        return finish(Failure(f"C12:loads-raises:{type(e).__name__}:{xdeps_frame(e)}",
                              dict(where, raised=repr(e)[:200], node_classes=sorted(ncls))), True)
    try:
        twin = W.Real.from_manager(m2)
        # ---- definitions
        d1, d2 = sorted(map(tuple, real.m.dump())), sorted(map(tuple, m2.dump()))
        if d1 != d2:
            diff = [x for x in d1 if x not in d2][:2] + [x for x in d2 if x not in d1][:2]
            return finish(Failure("C12:dump-differs", dict(where, differing=diff)), True)
        s1, s2 = defs_of(real.m), defs_of(m2)
        for k in s1:
            if k not in s2 or not E.ast_equal(s1[k], s2[k]):
                return finish(Failure("C12:expression-structure-differs",
                                      dict(where, target=k, original=E.render(s1[k]) if s1[k][0] != "unknown" else s1[k],
                                           copy=str(s2.get(k)))), True)
        # ---- a restored node is the SAME reference as one built afresh on the copy: equal, equally hashed, and
        # found by a lookup (targets are the keys of Manager.tasks and of the four indices)
        for tloc, ast in model.defs.items():
            try:
                fresh_t = E.build_loc(W.ast_loc(tloc), twin.refs, W.ATTR_ITEM_LABELS)
                fresh = E.build(ast, twin.refs, W.ATTR_ITEM_LABELS)
            except Exception:
                continue
            if fresh_t not in m2.tasks:
                return finish(Failure("C12:restored-target-not-found-by-fresh-ref", dict(where, target=str(fresh_t))), True)
            rest = m2.tasks[fresh_t].expr
            if not E.is_ref(fresh) or not E.ast_equal(E.unbuild(fresh), E.unbuild(rest)):
                continue
            if str(fresh) != str(rest) and E.norm_zero_text(str(fresh)) == E.norm_zero_text(str(rest)):
                # a literal captured by an in-place operator: the compiled build may hold -0.0 where the model (CPython
                # arithmetic) holds 0.0 - the toolchain artefact of section 9, not a difference between restored and fresh
                classes.add("fresh-vs-restored:zero-sign-literal(skipped)")
                continue
            classes.add("fresh-vs-restored-node-compared")
            bad = None
            if not (fresh == rest):
                bad = "not equal"
            elif hash(fresh) != hash(rest):
                bad = "hash differs"
            elif {rest: 1}.get(fresh) != 1:
                bad = "dict lookup fails"
            if bad:
                return finish(Failure(f"C12:restored-node-is-not-the-fresh-node:{culprit_hash(ast, twin.refs, rest)}",
                                      dict(where, target=str(fresh_t), expression=str(rest), what=bad)), True)
        if set(map(str, real.m.tasks)) != set(map(str, m2.tasks)) or len(real.m.tasks) != len(m2.tasks):
            return finish(Failure("C12:task-set-differs", where), True)
        # ---- consistency of the copy
        try:
            m2.verify()
        except Exception as e:
            return finish(Failure("C12:verify-raises-on-copy", dict(where, raised=repr(e)[:300])), True)
        f = check_indices(m2, dict(where, manager="copy"))
        if f:
            f.sig = f.sig.replace("C03:", "C12:copy-")
            return finish(f, True)
        # ---- independence of objects
        for lab in ("d", "e", "g", "F"):
            if twin.roots[lab] is real.roots[lab]:
                return finish(Failure("C12:container-shared", dict(where, label=lab)), True)
            if twin.refs[lab]._manager is not m2:
                return finish(Failure("C12:ref-belongs-to-other-manager", dict(where, label=lab)), True)
        for t in m2.tasks.values():
            if t.taskid._manager is not m2:
                return finish(Failure("C12:ref-belongs-to-other-manager", dict(where, task=str(t.taskid))), True)
        d = W.diff_roots(twin.roots, real.roots)
        if d is not None:
            return finish(Failure("C12:copy-contents-differ-from-original",
                                  dict(where, location=d[0], copy=d[1], original=d[2])), True)
        k1 = model.k1 or model.k1_now() is not None
        if not k1 and not broken:
            for name, w in (("original", real), ("copy", twin)):
                d = W.diff_roots(w.roots, model.roots)
                if d is not None:
                    return finish(Failure("C12:contents-differ-after-roundtrip",
                                          dict(where, manager=name, location=d[0], real=d[1], expected=d[2])), True)
        # ---- follow-ups
        models = {"orig": model, "copy": _copy.deepcopy(model)}
        worlds = {"orig": real, "copy": twin}
        triggered = False
        for j, op in enumerate([] if broken else case["follow"]):
            who = ["orig", "copy"] if op["who"] == "both" else [op["who"]]
            classes.add("follow-up:" + op["who"] + ":" + op["op"])
            wh = dict(where, follow_up=j, op=f"[{op['who']}] {W.render_op(op)}")
            stop = False
            for side in who:
                if op["op"] in ("setv", "inplace", "setc"):
                    if models[side].trigger_sets(W.tuple_loc(op["loc"]))[0]:
                        triggered = True
                mexc = rexc = None
                try:
                    models[side].apply(op)
                except Exception as e:
                    mexc = e
                try:
                    worlds[side].apply(op)
                except Exception as e:
                    rexc = e
                if mexc is not None:
                    classes.add("python-raises-in-follow-up")
                    if rexc is None and not k1:
                        return finish(Failure("C12:no-exception-where-python-raises",
                                              dict(wh, side=side, python=type(mexc).__name__)), True)
                    stop = True
                    continue
                if rexc is not None:
                    if k1:
                        stop = True
                        continue
                    return finish(Failure(f"C12:follow-up-exception:{type(rexc).__name__}:{xdeps_frame(rexc)}",
                                          dict(wh, side=side, raised=repr(rexc)[:300])), True)
            if stop:
                break
            k1 = k1 or any(mm.k1 for mm in models.values())
            if not k1:
                for side in ("orig", "copy"):
                    d = W.diff_roots(worlds[side].roots, models[side].roots)
                    if d is not None:
                        sig = "C12:follow-up-contents-differ" if side in who else "C12:not-independent"
                        return finish(Failure(sig, dict(wh, manager=side, location=d[0], real=d[1], expected=d[2])), True)
            for side in ("orig", "copy"):
                f = check_indices(worlds[side].m, dict(wh, manager=side))
                if f:
                    f.sig = f.sig.replace("C03:", "C12:follow-up-")
                    return finish(f, True)
    except Exception as e:
        return finish(Failure(f"C12:exception:{type(e).__name__}:{xdeps_frame(e)}",
                              dict(where, raised=repr(e)[:300])), True)
    for why, n in case.get("excluded", {}).items():
        ctx.stats.excluded[why] += n
    non_arith = {c for c in ncls if c != "bin:arith" and not c.startswith("nested-ref")}
    nt = len(model.defs) >= 3 and len(non_arith) >= 2 and triggered
    return finish(None, nt)


# ------------------------------------------------------------------ the manager's own default container
# Manager.ref() without a container creates xdeps' AttrDict, whose entries are reachable as items AND as attributes.
DC_KEYS = ["a", "b", "c", "x", "y"]
dc_numbers = st.one_of(st.integers(-9, 9), st.sampled_from([0.5, 1.5, -2.25, 3.0]))


@st.composite
def dc_cases(draw):
    def access():
        return [draw(st.sampled_from(["item", "attr"])), draw(st.sampled_from(DC_KEYS))]

    def statement():
        tgt = access()
        if draw(st.integers(0, 2)) == 0:
            return {"target": tgt, "value": draw(dc_numbers)}
        reads = [access() for _ in range(draw(st.integers(1, 2)))]
        reads = [r for r in reads if r[1] != tgt[1]] or [[tgt[0], next(k for k in DC_KEYS if k != tgt[1])]]
        return {"target": tgt, "reads": reads, "op": draw(st.sampled_from(["+", "*", "-"])), "k": draw(dc_numbers)}
    c = {"kind": "default-container", "init": {k: draw(dc_numbers) for k in DC_KEYS},
         "before": [statement() for _ in range(draw(st.integers(1, 5)))],
         "after": [dict(statement(), who=draw(st.sampled_from(["both", "both", "orig", "copy"])))
                   for _ in range(draw(st.integers(2, 6)))]}
    # the manager may be FROZEN when it is pickled (the copy must then reject what the original rejects), and a setter
    # function may have been generated from it before (gen_fun must leave nothing unpicklable behind); the follow-up then
    # also calls the setters of both managers and may unfreeze both
    # one case in five pickles the manager while the container is still EMPTY (everything is assigned afterwards)
    if draw(st.integers(0, 4)) == 0:
        c["empty_when_pickled"] = True
        c["after"] = [dict(s, who="both") for s in c["before"]] + c["after"]
        c["before"] = []
    # the container may be reachable from itself (a namespace tree whose children keep a link to their parent): still a
    # picklable container
    c["cycle"] = draw(st.sampled_from([None, None, "self", "child-parent", "through-list"]))
    c["frozen"] = draw(st.integers(0, 3)) == 0 and not c.get("empty_when_pickled")
    c["genfun"] = access() if draw(st.integers(0, 2)) == 0 else None
    extra = []
    if c["frozen"] and draw(st.booleans()):
        extra.append({"call": "unfreeze", "who": "both"})
    if c["genfun"]:
        for _ in range(draw(st.integers(1, 2))):
            extra.append({"call": "setter", "value": draw(dc_numbers), "who": draw(st.sampled_from(["both", "orig", "copy"]))})
    for x in extra:
        c["after"].insert(draw(st.integers(0, len(c["after"]))), x)
    return c


def dc_exec(ctx, case):
    """original and unpickled copy of a manager over its default container run the same statements; after every one the
    two containers must show the same entries through BOTH views (items and attributes), and the other manager's
    container must be untouched by a one-sided statement"""
    import pickle
    import xdeps

    def get(r, acc):
        return r[acc[1]] if acc[0] == "item" else getattr(r, acc[1])

    funs = {}

    def run(r, stm):
        if stm.get("call") == "unfreeze":
            r._manager.unfreeze_tree()
            return
        if stm.get("call") == "setter":
            funs[id(r._manager)](stm["value"])
            return
        if "value" in stm:
            v = stm["value"]
        else:
            v = get(r, stm["reads"][0])
            for acc in stm["reads"][1:]:
                v = E.BINOPS[stm["op"]](v, get(r, acc))
            v = E.BINOPS[stm["op"]](v, stm["k"])
        if stm["target"][0] == "item":
            r[stm["target"][1]] = v
        else:
            setattr(r, stm["target"][1], v)

    def views(r):
        o = r._owner
        a = {k: repr(v) for k, v in sorted(dict(o).items()) if k != "zz"}
        b = {k: repr(v) for k, v in sorted(vars(o).items()) if k != "zz"}
        ch = dict(o).get("zz")
        if isinstance(ch, dict):
            # the child namespace (compared between original and copy like everything else; whether its definition
            # follows an assignment made through the OTHER view of the parent is aliasing and not judged)
            a["zz"] = repr({k: v for k, v in sorted(dict(ch).items()) if k != "parent"})
            b["zz"] = repr({k: v for k, v in sorted(vars(ch).items()) if k != "parent"})
        return a, b

    def cycle_ok(r):
        """the link structure that was put in before pickling is there (identity, not a copy), the child is an AttrDict
        whose two views are one"""
        o = r._owner
        kind = case.get("cycle")
        if kind is None:
            return None
        try:
            if kind == "self":
                return None if o["zz"] is o and o.zz is o else "container does not hold ITSELF any more"
            if kind == "through-list":
                return None if o["zz"][1] is o and o["zz"][0] == 5 else "list member is not the container itself"
            ch = o["zz"]
            if not (ch["parent"] is o and o.zz is ch):
                return "child's parent link does not lead back to the container"
            if vars(ch) is not ch or type(ch).__name__ != "AttrDict":
                return "child AttrDict: item view and attribute view detached"
        except Exception as e:
            return f"raises {type(e).__name__}: {e}"[:160]
        return None

    def text(stm):
        if "call" in stm:
            return "unfreeze_tree()" if stm["call"] == "unfreeze" else f"setter({stm['value']!r})"
        t = (f"r[{stm['target'][1]!r}]" if stm["target"][0] == "item" else f"r.{stm['target'][1]}")
        if "value" in stm:
            return f"{t} = {stm['value']!r}"
        rs = [(f"r[{k!r}]" if h == "item" else f"r.{k}") for h, k in stm["reads"]]
        return f"{t} = {(' ' + stm['op'] + ' ').join(rs)} {stm['op']} {stm['k']!r}"
    rendered = {"container": "Manager.ref(label='r') default (xdeps AttrDict)", "init": case["init"],
                "before_pickle": [text(s) for s in case["before"]] +
                (["setter = gen_fun('setter', v=" + ("r[%r]" % case["genfun"][1] if case["genfun"][0] == "item" else "r." + case["genfun"][1]) + ")"]
                 if case.get("genfun") else []) + (["freeze_tree()"] if case.get("frozen") else []),
                "follow_up": [f"[{s['who']}] {text(s)}" for s in case["after"]]}
    classes = ["default-container"]
    m = xdeps.Manager()
    r = m.ref(label="r")
    if case.get("empty_when_pickled"):
        classes.append("default-container:empty-when-pickled")
    else:
        for k, v in case["init"].items():
            r[k] = v
    if case.get("cycle"):
        from xdeps.utils import AttrDict
        classes.append("default-container:cycle:" + case["cycle"])
        rendered["cycle"] = {"self": "r['zz'] = <the container itself>", "through-list": "r['zz'] = [5, <the container itself>]",
                             "child-parent": "r['zz'] = AttrDict(parent=<the container itself>); r['zz']['twice_a'] = r['a'] * 2"}[case["cycle"]]
        if case["cycle"] == "self":
            r._owner["zz"] = r._owner
        elif case["cycle"] == "through-list":
            r._owner["zz"] = [5, r._owner]
        else:
            r._owner["zz"] = AttrDict(parent=r._owner, twice_a=0)
            if not case.get("empty_when_pickled"):
                r["zz"]["twice_a"] = r["a"] * 2
            else:
                case = dict(case, cycle="child-parent(no definition)")
    try:
        for stm in case["before"]:
            run(r, stm)
    except Exception:
        ctx.stats.case(rendered, False, classes + ["default-container:history-raises"])
        return None
    plain = [s for s in case["before"] + case["after"] if "call" not in s]
    mixed = len({s["target"][0] for s in plain} | {a[0] for s in plain for a in s.get("reads", [])}) == 2
    if case.get("genfun"):
        classes.append("default-container:setter-generated-before-pickling")
        try:
            funs[id(m)] = m.gen_fun("setter", v=get(r, case["genfun"]))
        except Exception as e:
            ctx.stats.case(rendered, False, classes)
            return Failure(f"C12:default-container:gen_fun-raises:{type(e).__name__}", dict(rendered, raised=repr(e)[:200]))
    if case.get("frozen"):
        classes.append("default-container:frozen-when-pickled")
        m.freeze_tree()
    nt = mixed and any("reads" in s for s in case["before"])
    if mixed:
        classes.append("default-container:items-and-attributes-mixed")
    try:
        m2 = pickle.loads(pickle.dumps(m))
    except Exception as e:
        ctx.stats.case(rendered, nt, classes)
        return Failure(f"C12:default-container:pickle-raises:{type(e).__name__}", dict(rendered, raised=repr(e)[:200]))
    r2 = m2.containers["r"]
    if case.get("genfun"):
        try:
            funs[id(m2)] = m2.gen_fun("setter", v=get(r2, case["genfun"]))
        except Exception as e:
            ctx.stats.case(rendered, nt, classes)
            return Failure(f"C12:default-container:gen_fun-raises-on-copy:{type(e).__name__}", dict(rendered, raised=repr(e)[:200]))
    if views(r) != views(r2) or views(r)[0] != views(r)[1]:
        ctx.stats.case(rendered, nt, classes)
        return Failure("C12:default-container:contents-differ", dict(rendered, step="after the round trip",
                       original=views(r), copy=views(r2)))
    for who, rr in (("original", r), ("copy", r2)):
        why = cycle_ok(rr)
        if why:
            ctx.stats.case(rendered, nt, classes)
            return Failure("C12:default-container:self-reference-not-restored", dict(rendered, step="after the round trip", manager=who, what=why))
    if case.get("cycle") and r2._owner is r._owner:
        return Failure("C12:container-shared", dict(rendered))
    for i, stm in enumerate(case["after"]):
        before = (views(r), views(r2))
        outs = []
        for who, rr in (("orig", r), ("copy", r2)):
            if stm["who"] in ("both", who):
                try:
                    run(rr, stm)
                    outs.append(None)
                except Exception as e:
                    outs.append(type(e).__name__)
        if stm["who"] == "both":
            if outs[0] != outs[1]:
                ctx.stats.case(rendered, nt, classes)
                return Failure("C12:default-container:exception-differs", dict(rendered, step=i, original=outs[0], copy=outs[1]))
            if views(r) != views(r2):
                ctx.stats.case(rendered, nt, classes)
                return Failure("C12:default-container:contents-differ", dict(rendered, step=i, original=views(r), copy=views(r2)))
        elif stm["who"] == "orig" and views(r2) != before[1]:
            ctx.stats.case(rendered, nt, classes)
            return Failure("C12:default-container:not-independent", dict(rendered, step=i, changed="copy"))
        elif stm["who"] == "copy" and views(r) != before[0]:
            ctx.stats.case(rendered, nt, classes)
            return Failure("C12:default-container:not-independent", dict(rendered, step=i, changed="original"))
        if stm["who"] != "both":
            # bring the other side along so that the comparison stays meaningful
            try:
                run(r2 if stm["who"] == "orig" else r, stm)
            except Exception:
                pass
    for who, rr in (("original", r), ("copy", r2)):
        why = cycle_ok(rr)
        if why:
            ctx.stats.case(rendered, nt, classes)
            return Failure("C12:default-container:self-reference-not-restored", dict(rendered, step="after the follow-ups", manager=who, what=why))
    for mm in (m, m2):
        try:
            mm.verify()
        except Exception as e:
            ctx.stats.case(rendered, nt, classes)
            return Failure("C12:default-container:verify-raises", dict(rendered, raised=repr(e)[:200]))
    ctx.stats.case(rendered, nt, classes)
    return None


def run(ctx):
    n = ctx.n(200, 2000)
    opts = H.Opts(ftasks=False, knobs=False, maint=False, max_ops=20, eq=True, fresh=True, divmod_item=True)

    def body(case):
        return exec_case(ctx, case)
    drive(ctx, cases(opts), body, n, salt=1, label="C12")
    drive(ctx, dc_cases(), lambda c: dc_exec(ctx, c), max(50, n // 2), salt=2, label="C12 default container")


def replay(ctx, case):
    if case.get("kind") == "default-container":
        return dc_exec(ctx, case)
    return exec_case(ctx, case)
