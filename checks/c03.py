"""C03 - removing or replacing a definition leaves no trace (history independence).

After every operation of a generated history: (a) the support of rdeps / rtasks /
deptasks / tartasks equals a two-sided derivation from the public taskid / targets /
dependencies of manager.tasks; (b) verify() does not raise.  Before the follow-up
phase a FRESH manager is built over copies of the data from only the surviving
definitions (in model order and in a shuffled order); every query is compared and the
same follow-up assignments are applied to all managers, comparing contents and
exception types after each.
"""
import random

from hypothesis import strategies as st

from vlib import expr as E
from vlib import world as W
from vlib import histgen as H
from vlib.common import Failure, drive
from checks.c01 import xdeps_frame

RULE = ("histories of register / unregister / assign-value / assign-expression / in-place / container overwrite / "
        "function & knob tasks / refresh / cleanup over flat and nested targets, followed by 1..4 follow-up "
        "assignments; index supports checked two-sidedly after every step, queries and follow-up behaviour compared "
        "with fresh managers built from the surviving definitions.  Non-trivial = the history removes or replaces a "
        "task that had a nested target or read a nested location, and is followed by a query/assignment; distinct by "
        "history digest.")
ASSUMPTIONS = [
    "only supports (keys with non-empty entries) of the reference-counted indices are compared, never multiplicities",
    "query results are compared as sets (their order follows dict insertion history, which the property does not fix)",
    "follow-up container contents are compared only outside the known-finding class K1 (there the order of "
    "registration legitimately changes which stale value is seen)",
]
INDICES = ("rdeps", "rtasks", "deptasks", "tartasks")


def support(dct):
    return {str(k): {str(x) for x in v} for k, v in dct.items() if len(v)}


def derived(mgr):
    tasks = list(mgr.tasks.values())
    rdeps, rtasks, deptasks, tartasks = {}, {}, {}, {}
    for t in tasks:
        for dep in t.dependencies:
            rdeps.setdefault(str(dep), set()).update(str(x) for x in t.targets)
            deptasks.setdefault(str(dep), set()).add(str(t.taskid))
        for tar in t.targets:
            tartasks.setdefault(str(tar), set()).add(str(t.taskid))
    for p in tasks:
        pt = {str(x) for x in p.targets}
        for t in tasks:
            if pt & {str(x) for x in t.dependencies}:
                rtasks.setdefault(str(p.taskid), set()).add(str(t.taskid))
    rdeps = {k: v for k, v in rdeps.items() if v}
    return {"rdeps": rdeps, "rtasks": rtasks, "deptasks": deptasks, "tartasks": tartasks}


def check_indices(mgr, where):
    want = derived(mgr)
    for name in INDICES:
        got = support(getattr(mgr, name))
        if got != want[name]:
            extra = {k: sorted(v - want[name].get(k, set())) for k, v in got.items()
                     if v - want[name].get(k, set())}
            missing = {k: sorted(v - got.get(k, set())) for k, v in want[name].items()
                       if v - got.get(k, set())}
            kind = "stale" if extra else "missing"
            return Failure(f"C03:index-{kind}:{name}",
                           {"where": where, "index": name, "stale_entries": extra, "missing_entries": missing})
    return None


def current_init(model):
    init = {E.loc_str(k): model.get(k) for k in W.NUM_LEAVES}
    for k in W.FRESH_LEAVES:        # created by the history so far?
        try:
            init[E.loc_str(k)] = model.get(k)
        except (KeyError, AttributeError):
            pass
    init[E.loc_str(W.IDX_LEAF)] = model.get(W.IDX_LEAF)
    init[E.loc_str(W.KEY_LEAF)] = model.get(W.KEY_LEAF)
    return init


def fresh_from(model, order_seed=None):
    """fresh manager over copied data with only the surviving definitions"""
    fr = W.Real(current_init(model))
    items = [("def", k) for k in model.defs] + [("ft", n) for n in model.ftasks] + \
            [("knob", n) for n in model.knobs]
    if order_seed is not None:
        random.Random(order_seed).shuffle(items)
    from xdeps.tasks import ExprTask
    for kind, key in items:
        if kind == "def":
            fr.m.register(ExprTask(fr.ref(key), fr.build(model.defs[key])))
        elif kind == "ft":
            ft = model.ftasks[key]
            op = {"op": "regft", "name": key, "deps": [W.json_loc(k) for k in ft["deps"]],
                  "targets": [W.json_loc(k) for k in ft["targets"]], "fn": ft["fn"],
                  "norun": True}      # the copied data is already up to date
            fr.apply(op)
        else:
            kb = model.knobs[key]
            op = {"op": "regknob", "name": key, "source": W.json_loc(kb["source"]),
                  "weights": kb["weights"], "targets": [W.json_loc(k) for k in kb["targets"]]}
            fr.apply(op)
    return fr


def queries(real):
    out = {}
    for key in W.NUM_LEAVES + W.FRESH_LEAVES + W.CONTAINERS + [W.IDX_LEAF, W.KEY_LEAF]:
        r = real.ref(key)
        out[E.loc_str(key)] = (
            frozenset(str(x) for x in real.m.find_deps([r])),
            frozenset(str(x) for x in r._tasks),
            E.norm_zero_text(str(r._expr)),
        )
    return out


def exec_case(ctx, case):
    n_follow = case.get("n_follow", 0)
    ops = case["ops"]
    hist, follow = ops[:len(ops) - n_follow], ops[len(ops) - n_follow:]
    init = H.dec_init(case)
    model = W.Model(init)
    real = W.Real(init)
    classes = set()
    nontrivial_removal = False

    def nested_task(key):
        ast = model.defs.get(key)
        if ast is None:
            return False
        return len(key[1]) > 1 or any(len(r[1]) > 1 for r in E.reads(ast))

    def finish(f, nt=True):
        ctx.stats.case({"history": W.render_case(case), "follow_ups": n_follow}, nt, ["hist"] + sorted(classes))
        return f

    for i, op in enumerate(hist):
        k = op["op"]
        key = W.tuple_loc(op["loc"]) if "loc" in op else None
        if k in ("unreg", "setv", "sete", "inplace") and key in model.defs:
            classes.add("task-removed-or-replaced:" + k)
            if nested_task(key):
                nontrivial_removal = True
                classes.add("removed-task-nested")
        if k == "unregtask":
            classes.add("task-removed-or-replaced:unregtask")
        if k in ("refresh", "cleanup", "clone", "verify", "loadself"):
            classes.add("maint:" + k)
        mexc = rexc = None
        replaced_defined = key in model.defs if key is not None else False
        try:
            model.apply(op)
        except Exception as e:
            mexc = e
        try:
            real.apply(op)
        except Exception as e:
            rexc = e
        where = {"step": i, "op": W.render_op(op), "history": W.render_case(case)[:i + 1]}
        if mexc is not None:
            classes.add("python-raises")
            if op.get("unevaluable"):
                classes.add("unevaluable-assignment" + ("-onto-defined-target" if replaced_defined else ""))
            # Python itself raises: the history ends here (C01 decides the value clause).  Whatever the interrupted call
            # left registered, the manager must still be consistent with itself: indices two-sided, verify() quiet
            if rexc is not None:
                f = check_indices(real.m, where)
                if f:
                    f.sig += ":after-interrupted-call"
                    return finish(f)
                try:
                    real.m.verify()
                except Exception as e:
                    return finish(Failure("C03:verify-raises:after-interrupted-call", dict(where, raised=repr(e)[:300])))
            return finish(None, bool(op.get("unevaluable")) and replaced_defined)
        if rexc is not None:
            return finish(Failure(f"C03:exception:{type(rexc).__name__}:{xdeps_frame(rexc)}",
                                  dict(where, raised=repr(rexc)[:300])))
        f = check_indices(real.m, where)
        if f:
            return finish(f)
        try:
            real.m.verify()
        except Exception as e:
            return finish(Failure("C03:verify-raises", dict(where, raised=repr(e)[:300])))
    # ---- fresh managers
    k1 = model.k1 or model.k1_now() is not None
    if k1:
        classes.add("K1-class")
    try:
        fresh = [("model-order", fresh_from(model)), ("shuffled", fresh_from(model, case.get("shuffle", 1)))]
    except Exception as e:
        return finish(Failure(f"C03:fresh-manager-failed:{type(e).__name__}", {"raised": repr(e)[:300]}))
    where = {"history": W.render_case(case)[:len(hist)]}
    q0 = queries(real)
    for name, fr in fresh:
        q1 = queries(fr)
        for loc, a in q0.items():
            b = q1[loc]
            if a != b:
                what = ["find_deps", "_tasks", "_expr"][[x != y for x, y in zip(a, b)].index(True)]
                return finish(Failure(f"C03:query-differs:{what}",
                                      dict(where, location=loc, fresh=name,
                                           original=sorted(a[0]) if what == "find_deps" else (sorted(a[1]) if what == "_tasks" else a[2]),
                                           fresh_answer=sorted(b[0]) if what == "find_deps" else (sorted(b[1]) if what == "_tasks" else b[2]))))
    # clone() regenerates the indices: same supports
    try:
        cl = real.m.clone()
        for nm in INDICES:
            if support(getattr(cl, nm)) != support(getattr(real.m, nm)):
                return finish(Failure(f"C03:clone-differs:{nm}", where))
    except Exception as e:
        return finish(Failure(f"C03:exception:{type(e).__name__}:clone", dict(where, raised=repr(e)[:300])))
    # ---- follow-ups on all managers
    worlds = [("original", real)] + fresh
    for j, op in enumerate(follow):
        classes.add("follow-up")
        mexc = None
        try:
            model.apply(op)
        except Exception as e:
            mexc = e
        outs = []
        for name, w in worlds:
            try:
                w.apply(op)
                outs.append((name, None))
            except Exception as e:
                outs.append((name, e))
        wh = dict(where, follow_up=j, op=W.render_op(op))
        types = {name: (type(e).__name__ if e else None) for name, e in outs}
        if len(set(types.values())) > 1:
            bad = [e for _, e in outs if e is not None][0]
            return finish(Failure(f"C03:follow-up-exception-differs:{type(bad).__name__}:{xdeps_frame(bad)}",
                                  dict(wh, outcomes=types)))
        if mexc is not None:
            if outs[0][1] is None and not k1:
                return finish(Failure("C03:no-exception-where-python-raises", dict(wh, python=type(mexc).__name__)))
            break
        if outs[0][1] is not None:
            if k1:
                break
            e = outs[0][1]
            return finish(Failure(f"C03:exception:{type(e).__name__}:{xdeps_frame(e)}",
                                  dict(wh, raised=repr(e)[:300])))
        if not k1:
            for name, w in worlds:
                d = W.diff_roots(w.roots, model.roots)
                if d is not None:
                    return finish(Failure("C03:follow-up-contents-differ",
                                          dict(wh, manager=name, location=d[0], real=d[1], expected=d[2])))
        for name, w in worlds:
            f = check_indices(w.m, dict(wh, manager=name))
            if f:
                return finish(f)
    for why, n in case.get("excluded", {}).items():
        ctx.stats.excluded[why] += n
    return finish(None, nontrivial_removal and (n_follow > 0))


@st.composite
def cases(draw, opts):
    g = H.Gen(draw, opts)
    n = draw(st.integers(opts.min_ops, opts.max_ops))
    for _ in range(n):
        if not g.step():
            break
    n_follow = 0
    if not g.raised and draw(st.integers(0, 4)) == 0:
        # the history ends with an assignment of an expression that CANNOT be evaluated (it reads a missing key), mostly
        # onto a location that already has an expression: whatever set_value leaves behind must be consistent
        m = g.model
        ft_t, kb_t, kb_s, _ = g.roles()
        cands = [k for k in g.leaves() if k not in ft_t and k not in kb_t and k not in kb_s]
        defined = [k for k in cands if k in m.defs]
        t = draw(st.sampled_from(defined if defined and draw(st.integers(0, 3)) > 0 else cands))
        base = g.term_for(t)
        missing = ["loc", "d", [["i", "n0"], ["i", "no_such_key"]]]
        ast = missing if base is None else ["bin", draw(st.sampled_from(["+", "*"])), base, missing]
        if draw(st.booleans()) and base is not None:
            ast = ["bin", "-", missing, base]
        g.push({"op": "sete", "loc": W.json_loc(t), "ast": ast, "unevaluable": True})
        if not g.raised:        # (it must raise)
            g.raised = True
    if not g.raised:
        for _ in range(draw(st.integers(1, 4))):
            before = len(g.ops)
            ok = g.push(g.mk_setv())
            n_follow += len(g.ops) - before
            if not ok:
                break
    c = g.case()
    c["n_follow"] = n_follow
    c["shuffle"] = draw(st.integers(0, 10 ** 6))
    return c


WEIGHTS = {"sete": 34, "setv": 18, "inplace": 10, "unreg": 14, "setc": 4,
           "regft": 5, "regknob": 3, "unregtask": 4, "maint": 8, "load": 8}


def run(ctx):
    n = ctx.n(250, 2500)
    opts = H.Opts(weights=WEIGHTS, max_ops=25, fresh=True)

    def body(case):
        return exec_case(ctx, case)
    drive(ctx, cases(opts), body, n, salt=1, label="C03")
    # K1-class histories are not excluded here: the index clauses hold for them too
    opts2 = H.Opts(weights=WEIGHTS, max_ops=20, avoid_k1=False)
    drive(ctx, cases(opts2), body, max(30, n // 3), salt=2, label="C03 (K1 allowed)")
    long = H.Opts(weights=WEIGHTS, min_ops=40, max_ops=ctx.n(60, 120), fresh=True)
    drive(ctx, cases(long), body, ctx.n(10, 200), salt=3, label="C03 long histories")


def replay(ctx, case):
    return exec_case(ctx, case)
