"""C02 - one assignment runs exactly the downstream tasks, once each, in dependency order.

A generated history builds a task graph over logging containers; then ONE observed
assignment is executed several times, each time with the start set of the sort
visited in a harness-owned (drawn) permutation (wrapped xdeps.tasks.toposort) and
under the worker's hash seed.  From the ordered trace of container writes and
function-task calls:
  (1) the first write is the assigned location
  (2) L <= ran <= U   (L: true data-flow closure, U: the manager's documented relation)
  (3) every task that ran, ran exactly once
  (4) every true data-flow edge A->B with both in `ran` has A before B
  (5) cyclic graphs: the update terminates and runs each task at most once
"""
import random

from hypothesis import strategies as st

from vlib import expr as E
from vlib import world as W
from vlib import histgen as H
from vlib.common import Failure, drive
from checks.c01 import xdeps_frame

RULE = ("history (3..25 ops: expression / function / knob tasks, nested targets, any registration order) + one "
        "observed assignment (value, container or expression) repeated under k drawn permutations of the sort's "
        "start set, workers under PYTHONHASHSEED 0..3; cyclic variants add back-edge definitions.  Non-trivial = "
        ">=2 tasks ran and (a join with >=2 triggered inputs, or a task outside the triggered set exists); distinct "
        "by (history, observed assignment) digest.")
ASSUMPTIONS = [
    "two-sided bound L <= ran <= U: running a sibling-triggered task is allowed (documented owner-chain trigger), "
    "running anything outside U or skipping anything in L is not",
    "K1-class graphs (documented relation cyclic through a true edge) and true cycles only get clauses (3) and (5)",
    "each location has at most one writing task (generator invariant), so a write identifies the task that ran",
]


class PermutedSort:
    """context manager: visit the start set of toposort in a drawn order"""

    def __init__(self, seed):
        self.seed = seed

    def __enter__(self):
        import xdeps.tasks as T
        self.T = T
        self.orig = T.toposort
        seed = self.seed
        orig = self.orig

        def wrapped(graph, start=None):
            if start is not None and seed is not None:
                lst = sorted(start, key=str)
                random.Random(seed).shuffle(lst)
                start = lst
            return orig(graph, start)
        T.toposort = wrapped
        return self

    def __exit__(self, *a):
        self.T.toposort = self.orig


def task_events(trace, writer):
    """ordered list of task ids that ran (one entry per run)"""
    runs = []
    for ev in trace:
        if ev[0] == "call":
            runs.append(("ft", ev[1]))
        elif ev[0] == "w":
            tid = writer.get(ev[1])
            if tid is not None and tid[0] != "ft":
                if tid[0] == "knob" and not ev_first_target(ev[1], tid, writer):
                    continue
                runs.append(tid)
    return runs


_first_target = {}


def ev_first_target(locs, tid, writer):
    return _first_target.get(tid) == locs


def observe(real, model, op, perm_seed):
    """run `op` once on the real world with a permuted start set -> (trace, exception)"""
    W.TRACE = []
    exc = None
    try:
        with PermutedSort(perm_seed):
            real.apply(op)
    except Exception as e:
        exc = e
    trace, W.TRACE = W.TRACE, None
    return trace, exc


def exec_case(ctx, case):
    init = H.dec_init(case)
    model = W.Model(init)
    real = W.Real(init)
    ops = case["ops"]
    hist, obs = ops[:-1], ops[-1]
    classes = set()
    for i, op in enumerate(hist):
        mexc = rexc = None
        try:
            model.apply(op)
        except Exception as e:
            mexc = e
        try:
            real.apply(op)
        except Exception as e:
            rexc = e
        if mexc is not None or rexc is not None:
            # C01 decides value/exception clauses; here a history that raises is simply unusable
            ctx.stats.case({"history": W.render_case(case)}, False, ["hist", "history-raises"])
            if rexc is not None and mexc is None and not model.k1:
                return Failure(f"C02:exception:{type(rexc).__name__}:{xdeps_frame(rexc)}",
                               {"step": i, "op": W.render_op(op), "raised": repr(rexc)[:200]})
            return None
    # ---- cyclic variant: back edges registered on the real side only
    cyclic = bool(case.get("cycles"))
    for cop in case.get("cycles", []):
        try:
            real.apply(cop)
        except Exception as e:
            ctx.stats.case({"history": W.render_case(case)}, False, ["hist", "cycle-definition-raises"])
            return None
    key = W.tuple_loc(obs["loc"])
    Lset, Uset, tasks, true_g, doc_g = model.trigger_sets(key)
    k1 = model.k1 or model.k1_now() is not None
    # first unobserved execution (reaches the fixpoint; replaces the definition if any)
    try:
        model.apply(obs)
    except Exception:
        ctx.stats.case({"history": W.render_case(case)}, False, ["hist", "observed-raises"])
        return None
    if not cyclic:
        Lset, Uset, tasks, true_g, doc_g = model.trigger_sets(key)
        k1 = model.k1 or model.k1_now() is not None
    writer = {}
    _first_target.clear()
    for t in model.tasks():
        for j, wloc in enumerate(t.writes):
            writer[E.loc_str(wloc)] = t.tid
            if j == 0:
                _first_target[t.tid] = E.loc_str(wloc)
    if cyclic:
        for cop in case["cycles"]:
            ck = W.tuple_loc(cop["loc"])
            writer[E.loc_str(ck)] = ("def", ck)
    tr0, exc = observe(real, model, obs, None)
    if exc is not None:
        if cyclic or k1:
            ctx.stats.case({"history": W.render_case(case)}, False, ["hist", "cyclic-raises"])
            if isinstance(exc, RecursionError):
                return Failure("C02:cyclic:RecursionError", {"history": W.render_case(case)})
            return None
        return Failure(f"C02:exception:{type(exc).__name__}:{xdeps_frame(exc)}",
                       {"op": W.render_op(obs), "raised": repr(exc)[:200], "history": W.render_case(case)})
    nontrivial = False
    result = None
    for pi, pseed in enumerate([None] + list(case.get("perms", []))):
        trace, exc = observe(real, model, obs, pseed)
        where = {"observed": W.render_op(obs), "perm": pseed, "history": W.render_case(case)[:-1],
                 "cycles": [W.render_op(c) for c in case.get("cycles", [])]}
        if exc is not None:
            if cyclic or k1:
                if isinstance(exc, RecursionError):
                    result = Failure("C02:cyclic:RecursionError", where)
                break
            result = Failure(f"C02:exception:{type(exc).__name__}:{xdeps_frame(exc)}",
                             dict(where, raised=repr(exc)[:200]))
            break
        # the assignment's own write is not a task run
        own = next((i for i, ev in enumerate(trace) if ev[0] == "w"), None)
        first_w = trace[own] if own is not None else None
        rest = trace[:own] + trace[own + 1:] if own is not None else trace
        runs = task_events(rest, writer)
        ran = set(runs)
        # (3)/(5) exactly / at most once
        dup = sorted({str(t) for t in runs if runs.count(t) > 1})
        if dup:
            result = Failure("C02:task-ran-more-than-once", dict(where, tasks=dup, trace=[str(r) for r in runs]))
            break
        if cyclic or k1:
            classes.add("cyclic" if cyclic else "K1-class")
            continue
        # (1) first write is the assigned location
        if first_w is None or first_w[1] != E.loc_str(key) or any(ev[0] == "call" for ev in trace[:own]):
            result = Failure("C02:first-write-not-assigned-location",
                             dict(where, first=first_w[1] if first_w else None))
            break
        # (2) L <= ran <= U
        missing = Lset - ran
        extra = ran - Uset
        if missing:
            result = Failure("C02:downstream-task-not-run", dict(where, missing=sorted(map(str, missing)),
                                                                ran=[str(r) for r in runs]))
            break
        if extra:
            result = Failure("C02:unrelated-task-ran", dict(where, extra=sorted(map(str, extra)),
                                                          ran=[str(r) for r in runs]))
            break
        # (4) order
        pos = {t: i for i, t in enumerate(runs)}
        for a in ran:
            for b in true_g.get(a, ()):
                if b in ran and a != b and pos[a] > pos[b]:
                    result = Failure("C02:consumer-ran-before-producer",
                                     dict(where, producer=str(a), consumer=str(b), ran=[str(r) for r in runs]))
                    break
            if result:
                break
        if result:
            break
        indeg = {t: sum(1 for a in ran if t in true_g.get(a, ())) for t in ran}
        join = any(v >= 2 for v in indeg.values())
        unrelated = len(tasks) > len(Uset)
        if len(ran) >= 2 and (join or unrelated):
            nontrivial = True
        if join:
            classes.add("join(fan-in)")
        if unrelated:
            classes.add("unrelated-task-present")
        if any(len(true_g.get(a, ()) & ran) >= 2 for a in ran):
            classes.add("fan-out")
        if Lset != Uset:
            classes.add("L<U(sibling-trigger)")
        else:
            classes.add("L=U")
        if any(t[0] == "ft" for t in ran):
            classes.add("function-task-ran")
        if any(t[0] == "knob" for t in ran):
            classes.add("knob-ran")
        if len(key[1]) > 1:
            classes.add("nested-assigned-location")
        classes.add("ran>=4" if len(ran) >= 4 else f"ran={len(ran)}")
    if cyclic and result is None:
        nontrivial = True
    ctx.stats.case({"history": W.render_case(case)[:-1], "observed": W.render_op(obs),
                    "cycles": [W.render_op(c) for c in case.get("cycles", [])],
                    "L": sorted(map(str, Lset)), "U": sorted(map(str, Uset))},
                   nontrivial, ["hist"] + sorted(classes))
    for why, n in case.get("excluded", {}).items():
        ctx.stats.excluded[why] += n
    return result


@st.composite
def cases(draw, opts, nperm, cyclic=False):
    g = H.Gen(draw, opts)
    n = draw(st.integers(opts.min_ops, opts.max_ops))
    for _ in range(n):
        if not g.step(kinds=("sete", "setv", "inplace", "unreg", "regft", "regknob", "unregtask", "setc") + (("maint",) if opts.maint else ())):
            break
    cycles = []
    if cyclic and not g.raised and g.model.defs:
        # back edges: re-define a location that something (transitively) depends on, reading a downstream one
        m = g.model
        for _ in range(draw(st.integers(1, 2))):
            cands = []
            for t in sorted(m.defs, key=repr):
                down = [k for k in m.downstream_locs(t) if k in m.defs and k != t]
                for dn in down:
                    cands.append((t, dn))
            self_loop = draw(st.integers(0, 4)) == 0
            if self_loop or not cands:
                t = draw(st.sampled_from(sorted(m.defs, key=repr)))
                ast = ["bin", "+", W.ast_loc(t), E.lit(1)]
            else:
                t, dn = draw(st.sampled_from(cands))
                ast = ["bin", "+", ["bin", "*", W.ast_loc(dn), E.lit(0.5)], m.defs[t]]
            cycles.append({"op": "sete", "loc": W.json_loc(t), "ast": ast})
    # the observed assignment
    if not g.raised:
        kind = draw(st.sampled_from(["setv"] * 6 + ["setc", "sete"]))
        if cyclic:
            kind = "setv"
        op = None
        if kind == "setc":
            op = g.mk_setc()
        elif kind == "sete":
            op = g.mk_sete()
        if op is None:
            op = g.mk_setv()
        g.ops.append(op)
    c = g.case()
    c["observed"] = not g.raised
    c["perms"] = [draw(st.integers(0, 10 ** 6)) for _ in range(nperm)]
    if cycles:
        c["cycles"] = cycles
    return c


def run(ctx):
    n = ctx.n(200, 1500)
    nperm = 3 if ctx.quick else 5
    # maintenance calls (verify / cleanup / refresh / clone) in between: they prune and rebuild the indices the update reads
    opts = H.Opts(max_ops=25, maint=True, allow_raise=False, fresh=True)

    def body(case):
        if not case["ops"] or not case.get("observed"):
            ctx.stats.case({"history": "generation ended early (Python raises / size bound)"}, False,
                           ["hist", "unusable"])
            return None
        return exec_case(ctx, case)
    drive(ctx, cases(opts, nperm), body, n, salt=1, label="C02")
    flat = H.Opts(max_ops=20, maint=False, allow_raise=False, nested=False, setc=False)
    drive(ctx, cases(flat, nperm), body, max(30, n // 4), salt=2, label="C02 flat")
    cyc = H.Opts(max_ops=12, maint=False, allow_raise=False, ftasks=False, knobs=False, risky_ops=False)
    drive(ctx, cases(cyc, nperm, cyclic=True), body, max(30, n // 4), salt=3, label="C02 cyclic")
    # sparse managers: few definitions, many pure side-effect tasks (no targets) and maintenance calls - a location whose
    # ONLY dependant is a task that writes nothing
    sparse = H.Opts(min_ops=2, max_ops=8, maint=True, allow_raise=False, ft_sink_one_in=2,
                    weights={"regft": 30, "maint": 25, "setv": 15, "sete": 10, "unregtask": 6, "unreg": 4, "regknob": 4})
    drive(ctx, cases(sparse, nperm), body, max(30, n // 4), salt=5, label="C02 sparse")
    k1o = H.Opts(max_ops=15, maint=False, allow_raise=False, avoid_k1=False)
    drive(ctx, cases(k1o, nperm), body, max(20, n // 6), salt=4, label="C02 K1-allowed")


def replay(ctx, case):
    return exec_case(ctx, case)
