"""C08 - table.rows[...] returns exactly the rows its selector denotes, in table order.

exhaustive  every index column over {a, b, ab} up to length 5 (364 tables) x every selector form:
            positions (incl. negative, out of range), position lists, boolean masks, name lists, regular
            expressions in either case with / without ::count (positive, negative, out of range) and shift,
            name spans (closed, open, addressed through ::count and shift, with the index column named),
            spans over another string column, value ranges closed / lower-open / upper-open / both-open on
            a float and an int column, None, plain slices, empty results  - through rows[...],
            rows.indices[...] and rows.mask[...].  The regular-expression family runs in EVERY worker
            (each under its own PYTHONHASHSEED); the other families are split over the workers.
generated   larger tables (<= 40 rows, 2..6 names) with drawn selectors, and pairs (s1, s2) for the
            composition law  rows[s1, s2] == rows[s1].rows[s2] == reference composition.
oracle      vlib.tableref.ref_select (linear scans over the raw columns); results are compared through a
            hidden position column, so order and multiplicity count.
"""
import itertools

import numpy as np
from hypothesis import strategies as st

from vlib import tableref as TR
from vlib.common import Failure, drive

RULE = ("exhaustive scope: 364 tables x ~25 regex patterns x counts x shifts in every worker (distinct hash seeds), other "
        "selector families split over workers; generated: tables <= 40 rows, single selectors and selector pairs.  "
        "Non-trivial = the selector yields >= 2 rows, or uses a count / shift / open bound, or is a composition; distinct "
        "by (index column, selector[, second selector]) digest.")
ASSUMPTIONS = [
    "with a ::count the implementation tries the selector text as an exact name first; that is equivalent to the documented "
    "regex semantics only for names without regex metacharacters and case-only duplicates, so counts are drawn only for "
    "such name pools; WITHOUT a count, pools with case-only duplicates and metacharacters ('m.1', 'a|b') are generated too",
    "shifts that leave the table are not evaluated (counted as excluded)",
    "mixed int/str lists are not a documented selector form and are not generated",
]
ENGINE = "enumeration + hypothesis"
ALPHA = ["a", "b", "ab"]
PATTERNS = ["a", "A", "b", "ab", "AB", "a.*", "A.*", ".*", "[ab]", "a|b", "a?b", ".", "..", "zz", "b.*", "(a|ab)"]
COUNTS = [None, 0, 1, -1, -2, 3]
REQUIRED_CLASSES = ["sel:int", "sel:ints", "sel:mask", "sel:names", "sel:regex", "sel:regex+count", "sel:regex+negative-count",
                    "sel:regex+shift", "sel:span", "sel:span-open", "sel:colspan", "sel:range-closed", "sel:range-lower-open",
                    "sel:range-upper-open", "sel:range-both-open", "sel:none", "sel:slice", "sel:empty", "composition",
                    "api:rows", "api:indices", "api:mask", "result:empty", "result:>=2", "gen-tricky-names"]
KINDCOL = ["x", "y", "x", "z", "y", "w", "x"]


def model_for(names, extra_rows=None):
    n = len(names)
    return {"index": "name", "order": ["name", "s", "sn", "k", "kind", "pos"],
            "cols": {"name": list(names), "s": [float(i // 2) for i in range(n)],
                     "sn": [float("nan") if i % 3 == 1 else float(i // 2) for i in range(n)],
                     "k": [(i * 3 + 1) % 5 for i in range(n)], "kind": [KINDCOL[i % len(KINDCOL)] for i in range(n)],
                     "pos": list(range(n))}}


def table_for(tm):
    from xdeps.table import Table
    c = tm["cols"]
    n = len(c["name"])
    data = {"name": np.array(c["name"], dtype=str) if n else np.array([], dtype=str),
            "s": np.array(c["s"], dtype=float), "sn": np.array(c["sn"], dtype=float), "k": np.array(c["k"], dtype=int),
            "kind": np.array(c["kind"], dtype=str) if n else np.array([], dtype=str),
            "pos": np.array(c["pos"], dtype=int)}
    return Table(data, index="name")


def sub_model(tm, rows):
    return {"index": tm["index"], "order": tm["order"],
            "cols": {c: [v[i] for i in rows] for c, v in tm["cols"].items()}}


def sel_classes(sel, res):
    k = sel[0]
    out = []
    if k == "regex":
        out.append("sel:regex")
        if sel[2] is not None:
            out.append("sel:regex+count")
            if sel[2] < 0:
                out.append("sel:regex+negative-count")
        if sel[3] != 0:
            out.append("sel:regex+shift")
        if sel[1] != sel[1].lower():
            out.append("sel:regex-uppercase")
    elif k == "span":
        out.append("sel:span")
        if sel[1] is None or sel[2] is None:
            out.append("sel:span-open")
        if any(x is not None and (x[1] is not None or x[2] != 0) for x in (sel[1], sel[2])):
            out.append("sel:span-count-or-shift")
    elif k == "range":
        lo, hi = sel[1], sel[2]
        out.append("sel:range-" + ("closed" if lo is not None and hi is not None else
                                   "lower-open" if lo is None and hi is not None else
                                   "upper-open" if hi is None and lo is not None else "both-open"))
    else:
        out.append("sel:" + k)
    if isinstance(res, list):
        out.append("result:empty" if not res else ("result:>=2" if len(res) >= 2 else "result:1"))
    else:
        out.append("result:raises")
    return out


def nontrivial(sel, res):
    if isinstance(res, list) and len(res) >= 2:
        return True
    k = sel[0]
    if k == "regex" and (sel[2] is not None or sel[3] != 0):
        return True
    if k == "range" and (sel[1] is None or sel[2] is None):
        return True
    if k == "span" and (sel[1] is None or sel[2] is None or
                        any(x is not None and (x[1] is not None or x[2] != 0) for x in (sel[1], sel[2]))):
        return True
    return False


def expected(tm, sel):
    try:
        return TR.ref_select(tm, sel)
    except TR.Outside:
        return "outside"
    except KeyError:
        return ("exc", "KeyError")
    except IndexError:
        return ("exc", "IndexError")


def observe(t, sel, api):
    obj = TR.to_python(sel)
    try:
        if api == "rows":
            return [int(x) for x in t.rows[obj]["pos"]]
        if api == "indices":
            n = len(t)
            return [int(x) % n if n else int(x) for x in t.rows.indices[obj]]
        if api == "mask":
            return [bool(x) for x in t.rows.mask[obj]]
    except Exception as e:
        return ("exc", type(e).__name__)


def check_one(ctx, tm, t, sel, apis=("rows", "indices", "mask"), tag="exh"):
    want = expected(tm, sel)
    if want == "outside":
        ctx.stats.excluded["shift or offset leaves the table"] += 1
        return None
    n = TR.nrows(tm)
    cls = [tag] + sel_classes(sel, want)
    if want == ("exc", "IndexError"):
        apis = [a for a in apis if a == "rows"]     # positions outside the table: only the selection itself must fail
    for api in apis:
        got = observe(t, sel, api)
        ctx.stats.case({"names": tm["cols"]["name"], "selector": TR.render(sel), "api": api}, nontrivial(sel, want),
                       cls + ["api:" + api])
        if isinstance(want, tuple):
            ok = got == want
        elif api == "mask":
            ok = got == [i in set(want) for i in range(n)]
        else:
            ok = got == want
        if not ok:
            what = "raises" if isinstance(got, tuple) else ("order" if (not isinstance(want, tuple) and isinstance(got, list)
                                                                         and api != "mask" and sorted(got) == sorted(want)) else "rows")
            f = Failure(f"C08:{sel_classes(sel, want)[0][4:]}:{api}:{what}" + (":" + got[1] if isinstance(got, tuple) else ""),
                        {"names": tm["cols"]["name"], "selector": TR.render(sel), "api": api, "got": repr(got)[:300],
                         "expected": repr(want)[:300],
                         "columns": {c: repr(tm["cols"][c]) for c in ("s", "sn", "k", "kind")} if sel[0] in ("range", "colspan") else None})
            f.case = {"kind": "single", "names": tm["cols"]["name"], "sel": sel, "api": api}
            return f
    return None


# ------------------------------------------------------------------ selector enumeration
def regex_family(tm):
    for p in PATTERNS:
        for c in COUNTS:
            for off in (0, 1, -1):
                yield ["regex", p, c, off]


def spec_at(names, i, style):
    """a row spec addressing position i"""
    occ = sum(1 for x in names[:i] if x == names[i])
    tot = sum(1 for x in names if x == names[i])
    if style == "plain":
        return [names[i], None if occ == 0 else occ, 0]
    if style == "neg":
        return [names[i], occ - tot, 0]
    if style == "shift-prev" and i + 1 < len(names):
        j = i + 1
        occj = sum(1 for x in names[:j] if x == names[j])
        return [names[j], None if occj == 0 else occj, -1]
    if style == "shift-next" and i >= 1:
        j = i - 1
        occj = sum(1 for x in names[:j] if x == names[j])
        return [names[j], occj, 1]
    return [names[i], occ, 0]


def other_family(tm):
    names = tm["cols"]["name"]
    n = len(names)
    for i in range(-n - 1, n + 1):
        yield ["int", i]
    yield ["ints", []]
    yield ["empty"]
    yield ["none"]
    if n:
        yield ["ints", [0]]
        yield ["ints", [n - 1, 0]]
        yield ["ints", [0, 0]]
        yield ["ints", [-1]]
        yield ["ints", list(range(n))[::-1]]
        yield ["ints", [0, n]]
    masks = list(itertools.product([False, True], repeat=n))
    if n == 5:
        masks = masks[::4]
    for m in masks:
        yield ["mask", list(m)]
    for sl in ([0, 2, None], [1, None, None], [None, None, -1], [None, None, 2], [-2, None, None], [1, 4, 3], [3, 1, None]):
        yield ["slice"] + sl
    if n:
        yield ["names", [spec_at(names, 0, "plain")]]
        yield ["names", [spec_at(names, n - 1, "neg"), spec_at(names, 0, "plain")]]
        yield ["names", [["zz", None, 0]]]
        yield ["names", [spec_at(names, 0, "plain"), spec_at(names, 0, "plain")]]
    styles = ["plain", "neg", "shift-prev", "shift-next"]
    for i in range(n):
        for j in range(n):
            st_a = styles[(i + j) % 4]
            st_b = styles[(i + 2 * j + 1) % 4]
            yield ["span", spec_at(names, i, st_a), spec_at(names, j, st_b), [None, "name"][(i + j) % 2]]
        yield ["span", spec_at(names, i, "plain"), None, None]
        yield ["span", None, spec_at(names, i, "neg"), None]
    yield ["span", ["zz", None, 0], None, None]
    kinds = tm["cols"]["kind"]
    for va in sorted(set(kinds)):
        for vb in sorted(set(kinds)):
            yield ["colspan", va, vb, "kind"]
        yield ["colspan", va, None, "kind"]
    for lo in (None, -1.0, 0.0, 0.5, 1.0, 2.0, 5.0):
        for hi in (None, -1.0, 0.0, 1.0, 1.5, 2.0, 5.0):
            yield ["range", lo, hi, "s"]
    for lo in (None, 0, 1, 3):
        for hi in (None, 0, 2, 4):
            yield ["range", lo, hi, "k"]
    for lo in (None, 0.0, 1.0, 5.0):          # a column holding NaN: NaN rows belong to no bounded range
        for hi in (None, 0.0, 1.0, 2.0):
            yield ["range", lo, hi, "sn"]


def all_tables():
    for n in range(0, 6):
        for names in itertools.product(ALPHA, repeat=n):
            yield list(names)


def run_exhaustive(ctx):
    full_regex = full_other = True
    split = 2 if ctx.quick else 1
    for ti, names in enumerate(all_tables()):
        tm = model_for(names)
        t = table_for(tm)
        for sel in regex_family(tm):
            f = check_one(ctx, tm, t, sel)
            if f:
                ctx.fail(f, f.case)
                full_regex = False
                break
        if ti % split != ctx.shard % split:
            continue
        for sel in other_family(tm):
            f = check_one(ctx, tm, t, sel)
            if f:
                ctx.fail(f, f.case)
                full_other = False
                break
    import os
    ctx.stats.exhaustive["regex family x 364 index columns (this worker's hash seed)"] = full_regex
    ctx.stats.exhaustive["other selector families x index columns"] = full_other
    ctx.stats.extra["hash_seeds"] = {os.environ.get("PYTHONHASHSEED", "?"): 1}


# ------------------------------------------------------------------ generated tables, pairs
POOLS = [["a", "b", "ab"], ["ip1", "ip2", "mq", "mqx", "d"], ["A1", "b2", "c3", "d4", "e5", "f6"], ["x", "xx"]]
# names that differ only by case or contain regex metacharacters (dots are everywhere in accelerator lattices): a string
# selector WITHOUT ::count is still a case-insensitive full-match regex over all of them (with ::count the
# implementation's exact-name shortcut applies first, which is why counts are not drawn for these pools)
TRICKY_POOLS = [["qf", "QF", "d", "qd"], ["m.1", "mx1", "m.2", "M.1"], ["a|b", "a", "b"], ["x+", "xx", "x"]]


def draw_selector(draw, tm):
    names = tm["cols"]["name"]
    n = len(names)
    kinds = ["int", "ints", "mask", "regex", "regex", "regex", "range", "range", "none", "slice", "empty"]
    if n:
        kinds += ["names", "span", "span", "colspan"]
    k = draw(st.sampled_from(kinds))
    if k == "int":
        return ["int", draw(st.integers(-n, n - 1))] if n else ["none"]
    if k == "ints":
        return ["ints", [draw(st.integers(-n, n - 1)) for _ in range(draw(st.integers(0, 5)))]] if n else ["ints", []]
    if k == "mask":
        return ["mask", [draw(st.booleans()) for _ in range(n)]]
    if k == "regex":
        uniq = sorted(set(names)) or ["a"]
        base = draw(st.sampled_from(uniq))
        form = draw(st.integers(0, 6))
        pat = [base, base.upper(), base[0] + ".*", ".*", base + "?" if len(base) > 1 else base, "(" + "|".join(uniq[:2]) + ")",
               base[:-1] + "."][form]
        return ["regex", pat, draw(st.sampled_from([None, None, 0, 1, 2, -1, -2, 7])), draw(st.sampled_from([0, 0, 1, -1, 2]))]
    if k == "range":
        col = draw(st.sampled_from(["s", "k", "sn"]))
        lo = draw(st.sampled_from([None, -1, 0, 1, 2, 3, 7]))
        hi = draw(st.sampled_from([None, 0, 1, 2, 4, 9, 30]))
        if col in ("s", "sn"):
            lo = None if lo is None else lo + draw(st.sampled_from([0.0, 0.5]))
            hi = None if hi is None else hi + draw(st.sampled_from([0.0, 0.5]))
        return ["range", lo, hi, col]
    if k == "slice":
        return ["slice", draw(st.sampled_from([None, 0, 1, 3, -2])), draw(st.sampled_from([None, 2, 5, -1, n])),
                draw(st.sampled_from([None, None, 2, -1, 3]))]
    if k == "names":
        return ["names", [spec_at(names, draw(st.integers(0, n - 1)), draw(st.sampled_from(["plain", "neg", "x"])))
                          for _ in range(draw(st.integers(1, 4)))]]
    if k == "span":
        i, j = draw(st.integers(0, n - 1)), draw(st.integers(0, n - 1))
        styles = ["plain", "neg", "shift-prev", "shift-next"]
        a = spec_at(names, i, draw(st.sampled_from(styles))) if draw(st.integers(0, 5)) else None
        b = spec_at(names, j, draw(st.sampled_from(styles))) if draw(st.integers(0, 5)) else None
        return ["span", a, b, draw(st.sampled_from([None, "name"]))]
    if k == "colspan":
        ks = sorted(set(tm["cols"]["kind"]))
        return ["colspan", draw(st.sampled_from(ks)), draw(st.sampled_from(ks + [None])), "kind"]
    return [k]


def draw_tricky_selector(draw, tm, pool):
    names = tm["cols"]["name"]
    n = len(names)
    k = draw(st.sampled_from(["regex-name", "regex-name", "regex-name", "regex-other", "names", "span", "range"]))
    if k == "regex-name":        # the selector text is itself one of the names
        return ["regex", draw(st.sampled_from(pool)), None, draw(st.sampled_from([0, 0, 1, -1]))]
    if k == "regex-other":
        return ["regex", draw(st.sampled_from([".*", "q.", "m.*", "[ab]", "x*", "M\\.1", "a\\|b"])), None, 0]
    if k == "names" and n:
        return ["names", [[names[draw(st.integers(0, n - 1))], None, 0] for _ in range(draw(st.integers(1, 3)))]]
    if k == "span" and n:
        return ["span", [names[draw(st.integers(0, n - 1))], None, 0], [names[draw(st.integers(0, n - 1))], None, 0], None]
    return ["range", draw(st.sampled_from([None, 0.0, 1.0])), draw(st.sampled_from([None, 1.0, 3.0])), "sn"]


@st.composite
def gen_cases(draw):
    if draw(st.integers(0, 3)) == 0:
        pool = draw(st.sampled_from(TRICKY_POOLS))
        n = draw(st.integers(0, 12))
        names = [draw(st.sampled_from(pool)) for _ in range(n)]
        tm = model_for(names)
        return {"kind": "pair", "names": names, "s1": draw_tricky_selector(draw, tm, pool), "s2": None, "tricky": True}
    pool = draw(st.sampled_from(POOLS))
    n = draw(st.integers(0, 40))
    names = [draw(st.sampled_from(pool)) for _ in range(n)]
    tm = model_for(names)
    s1 = draw_selector(draw, tm)
    case = {"kind": "pair", "names": names, "s1": s1, "s2": None}
    r1 = expected(tm, s1)
    if isinstance(r1, list) and draw(st.integers(0, 3)) > 0:
        case["s2"] = draw_selector(draw, sub_model(tm, r1))
    return case


def exec_gen(ctx, case):
    tm = model_for(case["names"])
    t = table_for(tm)
    s1, s2 = case["s1"], case["s2"]
    if s2 is None:
        return check_one(ctx, tm, t, s1, tag="gen-tricky-names" if case.get("tricky") else "gen")
    r1 = expected(tm, s1)
    if not isinstance(r1, list):
        return check_one(ctx, tm, t, s1, tag="gen")
    tm2 = sub_model(tm, r1)
    r2 = expected(tm2, s2)
    if r2 == "outside":
        ctx.stats.excluded["shift or offset leaves the table"] += 1
        return None
    want = [r1[i] for i in r2] if isinstance(r2, list) else r2
    o1, o2 = TR.to_python(s1), TR.to_python(s2)
    outs = {}

    def run(name, fn):
        try:
            outs[name] = fn()
        except Exception as e:
            outs[name] = ("exc", type(e).__name__)
    n = len(t)
    run("rows[s1, s2]", lambda: [int(x) for x in t.rows[o1, o2]["pos"]])
    run("rows[s1].rows[s2]", lambda: [int(x) for x in t.rows[o1].rows[o2]["pos"]])
    run("rows.indices[s1, s2]", lambda: [int(x) % n if n else int(x) for x in t.rows.indices[o1, o2]])
    run("rows.mask[s1, s2]", lambda: [bool(x) for x in t.rows.mask[o1, o2]])
    cls = ["gen", "composition"] + sel_classes(s1, r1) + ["second:" + c for c in sel_classes(s2, r2) if c.startswith("sel:")]
    ctx.stats.case({"names": case["names"], "selector": TR.render(s1), "then": TR.render(s2)}, True,
                   cls + ["api:rows", "api:indices", "api:mask"])
    for name, got in outs.items():
        if isinstance(want, tuple):
            ok = got == want
        elif name.startswith("rows.mask"):
            ok = got == [i in set(want) for i in range(n)]
        else:
            ok = got == want
        if not ok:
            f = Failure(f"C08:composition:{name}" + (":raises:" + got[1] if isinstance(got, tuple) else ""),
                        {"names": case["names"], "s1": TR.render(s1), "s2": TR.render(s2), "form": name,
                         "got": repr(got)[:300], "expected": repr(want)[:300], "rows_of_s1": r1})
            return f
    return None


def run(ctx):
    run_exhaustive(ctx)
    drive(ctx, gen_cases(), lambda c: exec_gen(ctx, c), ctx.n(800, 8000), salt=1, label="C08 generated")


def replay(ctx, case):
    if case.get("kind") == "single":
        tm = model_for(case["names"])
        return check_one(ctx, tm, table_for(tm), case["sel"], apis=(case["api"],), tag="replay")
    return exec_gen(ctx, case)
