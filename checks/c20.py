"""C20 - results do not depend on the build (compiled or pure Python) or the hash seed.

The PARENT generates one corpus of programs from VERIF_SEED (a pure function of the seed; generation uses
only the harness' models, never xdeps):
  history   manager histories as in C01-C03 (values, expressions, in-place, unregister, container overwrite,
            function tasks, knobs, verify / cleanup / refresh / clone)
  pickle    histories + decoration with every node class + pickle round trip + follow-ups on both sides (C12)
  load      histories + dump / JSON / load into a fresh manager + follow-ups (C11)
  expr      expression terms over adversarial keys with two valuations (C04-C06, C11)
Every program is then interpreted in child processes, one per configuration
  {Cython-compiled build of the working tree, pure-Python build} x PYTHONHASHSEED in S
and yields a canonical transcript after every operation: container contents (order-insensitive, type-tagged,
NaN-safe, zero-sign-insensitive), dump() as a sorted list, sorted supports of the four indices, exception TYPE
names, printed forms, value / type of expressions, dependency sets, ==/hash-equality verdicts (never raw hash
values).  All transcripts of one program must be identical.  A mismatch is minimised by the parent (greedy
removal of operations, re-interpreting under the two differing configurations).
"""
import json
import pickle

from hypothesis import strategies as st

from vlib import expr as E
from vlib import world as W
from vlib import histgen as H
from vlib.common import Failure, digest

RULE = ("corpus generated once in the parent; non-trivial = a program with >= 1 multi-task update (an assignment triggering "
        ">= 2 tasks, so iteration order matters) or >= 1 exception or a pickle / load step, or an expression with >= 2 "
        "operator nodes; distinct by program digest; evaluations = programs x configurations.")
ASSUMPTIONS = [
    "known-finding class K1 (C01) is excluded by construction: there the order of registration / iteration legitimately "
    "decides which stale value is seen",
    "attribute names starting with '_' or colliding with attributes of the ref classes are never generated (the two builds "
    "document different __setattr__ behaviour for them)",
    "after an operation raises, only the exception type is compared (how far the interrupted update got among independent "
    "tasks legitimately follows iteration order)",
    "dict insertion order of containers is not compared (two independent tasks may create keys in either order)",
    "zeros of either sign are equal values (Cython float fast paths, see DESIGN 9)",
]
LEVEL = "exploration"
DIFFERENTIAL = True


def configs(tier):
    if tier == "quick":
        return [("compiled", 0), ("pure", 0), ("compiled", 1), ("pure", 2)]
    return [("compiled", s) for s in range(8)] + [("pure", s) for s in range(8)]


def parts(tier):
    return 2 if tier == "quick" else 1


def collect(strategy, n, seed):
    """n examples of `strategy` as a pure function of `seed` (runs in the parent)"""
    import hypothesis
    from hypothesis import given, settings, HealthCheck, Phase
    out = []

    def test(case):
        out.append(case)
    w = hypothesis.seed(seed)(settings(max_examples=n, database=None, deadline=None, derandomize=False,
                                       phases=[Phase.generate], suppress_health_check=list(HealthCheck))(
        given(strategy)(test)))
    w()
    return out


def make_corpus(tier, seed):
    from checks import c11, c12
    n = {"quick": (250, 100, 100, 400), "thorough": (1400, 500, 500, 1600)}[tier]
    corpus = []
    for c in collect(H.histories(H.Opts(fresh=True, divmod_item=True)), n[0], seed * 7 + 1):
        corpus.append(dict(c, kind="history"))
    # a profile rich in whole-container readers (computed keys) next to readers of single members: an assignment to a
    # member then starts the sort from two refs (owner and item), whose visiting order follows the hash
    heavy = H.Opts(comp_one_in=2, ftasks=False, knobs=False, maint=False, max_ops=18, risky_ops=False,
                   weights={"sete": 50, "setv": 40, "inplace": 5, "unreg": 5})
    for c in collect(H.histories(heavy), n[0], seed * 7 + 6):
        corpus.append(dict(c, kind="history"))
    opts = H.Opts(ftasks=False, knobs=False, maint=False, max_ops=20, eq=True)
    for c in collect(c12.cases(opts), n[1], seed * 7 + 2):
        corpus.append(dict(c, kind="pickle"))
    opts = H.Opts(ftasks=False, knobs=False, maint=False, max_ops=25, math_builtins=False)
    for c in collect(c11.load_cases(opts), n[2], seed * 7 + 3):
        corpus.append(dict(c, kind="load"))
    for c in collect(c11.expr_cases(), n[3], seed * 7 + 4):
        corpus.append(dict(c, kind="expr"))
    for c in collect(keytype_cases(), max(40, n[3] // 5), seed * 7 + 5):
        corpus.append(c)
    for c in collect(unevaluable_cases(), max(60, n[3] // 4), seed * 7 + 8):
        corpus.append(c)
    corpus.extend(arith_programs())
    corpus.extend(owner_and_item_programs())
    corpus.extend(diamond_programs())
    return corpus


def owner_and_item_programs():
    """Assigning a member starts the task sort from TWO refs (the member and its owner).  One task reads the owner as a
    whole (computed key), another reads the member AND the first task's target: whatever order the two start refs are
    visited in (it follows their hashes), the second must run after the first."""
    init = {E.loc_str(k): E.enc(float(i + 1)) for i, k in enumerate(W.NUM_LEAVES)}
    out = []
    L = W.L
    I = W.I
    for cont, keyleaf, members, keyvals in (
            (L("d", I("l")), W.IDX_LEAF, [0, 1, 2], [0, 1, 2]),
            (L("d", I("n0")), W.KEY_LEAF, ["p", "q"], ["p", "q"])):
        for mi, member in enumerate(members):
            for chain in (0, 1, 2):
                for tgt_x, tgt_y in ((L("d", I("a")), L("d", I("b"))), (L("e", W.A("x")), L("g", I("k1"))),
                                     (L("d", I("n1"), I("p")), L("d", I("n1"), I("q")))):
                    ini = dict(init)
                    ini[E.loc_str(W.IDX_LEAF)] = E.enc(keyvals[mi] if keyleaf == W.IDX_LEAF else 0)
                    ini[E.loc_str(W.KEY_LEAF)] = E.enc(keyvals[mi] if keyleaf == W.KEY_LEAF else "p")
                    whole = ["bin", "*", ["item", W.ast_loc(cont), W.ast_loc(keyleaf)], E.lit(2.0)]
                    ops = [{"op": "sete", "loc": W.json_loc(tgt_x), "ast": whole}]
                    prev = tgt_x
                    spare = [L("d", I("c")), L("d", I("x"))]
                    for c in range(chain):
                        ops.append({"op": "sete", "loc": W.json_loc(spare[c]), "ast": ["bin", "+", W.ast_loc(prev), E.lit(1.0)]})
                        prev = spare[c]
                    memb = (cont[0], cont[1] + (I(member),))
                    ops.append({"op": "sete", "loc": W.json_loc(tgt_y),
                                "ast": ["bin", "+", W.ast_loc(memb), W.ast_loc(prev)]})
                    ops.append({"op": "setv", "loc": W.json_loc(memb), "v": E.enc(40.5)})
                    ops.append({"op": "setv", "loc": W.json_loc(memb), "v": E.enc(-7.25)})
                    case = {"kind": "history", "init": ini, "ops": ops, "family": "owner-and-item"}
                    if valid(case):         # outside known-finding class K1 (siblings under one owner feeding each other)
                        out.append(case)
    return out


BIG = [2 ** 53 + 1, (2 ** 53 + 1) * 3, 6, 10 ** 400, 10 ** 398, -(2 ** 63), 2 ** 64 + 1, 3, 0, 7.0, 0.1, 1e308, True]
ARITH_OPS = ["+", "-", "*", "/", "//", "%", "<", ">="]


def diamond_programs():
    """y = f(x);  z = W(y) (op) x  or  x (op) W(y)  for every wrapper node class W; then x is assigned.  z's task and y's
    task both start from x: only the ordering edge y -> z (made from z's reported dependencies) keeps z from being
    computed before y - if it is missing, the order follows set iteration (hash seed, build)"""
    x, y, z = W.NUM_LEAVES[0], W.NUM_LEAVES[1], W.NUM_LEAVES[2]
    lx, ly = W.ast_loc(x), W.ast_loc(y)
    F = lambda k: W.ast_loc(W.L("F", W.I(k)))
    wrappers = {
        "abs": ["bi", "abs", ly, []], "round": ["bi", "round", ly, [E.lit(1)]], "neg": ["un", "-", ly],
        "call": ["call", F("sq"), [ly], []], "call-kw": ["call", F("scale"), [ly], [["k", E.lit(3)]]],
        "real": ["cattr", ["bin", "*", ly, E.lit(2)], E.lit("real")], "divmod0": ["item", ["bi", "divmod", ly, [E.lit(7)]], E.lit(0)],
        "mul": ["bin", "*", ly, E.lit(3)], "pow": ["bin", "**", ly, E.lit(2)],
    }
    out = []
    ini = {E.loc_str(k): E.enc(v) for k, v in zip(W.NUM_LEAVES + [W.IDX_LEAF, W.KEY_LEAF], [2.0, 0.0, 0.0] + [1.0] * (len(W.NUM_LEAVES) - 3) + [0, "p"])}
    for wn, wast in wrappers.items():
        for first in (True, False):
            for op in ("+", "-"):
                zdef = ["bin", op, wast, lx] if first else ["bin", op, lx, wast]
                for ydef_first in (True, False):
                    defs = [{"op": "sete", "loc": W.json_loc(y), "ast": ["bin", "*", lx, E.lit(2.0)]},
                            {"op": "sete", "loc": W.json_loc(z), "ast": zdef}]
                    if not ydef_first:
                        defs = [{"op": "setv", "loc": W.json_loc(y), "v": E.enc(4.0)}, defs[1], defs[0]]
                    ops = defs + [{"op": "setv", "loc": W.json_loc(x), "v": E.enc(-3.0)},
                                  {"op": "setv", "loc": W.json_loc(x), "v": E.enc(5.5)}]
                    out.append({"kind": "history", "init": ini, "ops": ops, "family": "diamond:" + wn})
    return out


def arith_programs():
    """exact-integer arithmetic at and beyond the float range: the two builds must agree digit for digit
    (a typed fast path exists only in the compiled build)"""
    out = []
    for op in ARITH_OPS:
        for form in ("ref-ref", "ref-lit", "lit-ref"):
            out.append({"kind": "arith", "op": op, "form": form,
                        "pairs": [[E.enc(a), E.enc(b)] for a in BIG for b in BIG]})
    return out


KEY_PALETTE = [["np", "int64", 1], ["np", "int64", 0], ["np", "int32", 2], ["np", "uint8", 1], ["np", "intp", 3],
               ["py", "int", 2], ["py", "bool", True], ["np", "bool_", True], ["np", "float64", 1.0], ["py", "float", 2.0],
               ["np", "str_", "k"], ["py", "str", "k"], ["py", "negint", -1], ["np", "int64", -2]]


@st.composite
def keytype_cases(draw):
    """item keys of numpy / Python scalar types on a list and a dict: the two builds must treat them alike"""
    # one key per underlying slot: two differently typed keys for one slot are two refs to one cell (aliasing,
    # outside every quantifier: which of the two definitions wins follows iteration order)
    keys = draw(st.lists(st.sampled_from(KEY_PALETTE), min_size=1, max_size=3,
                         unique_by=lambda k: k[2] if isinstance(k[2], str) else int(k[2]) % 4))   # l[-2] is l[2]
    return {"kind": "keytypes", "keys": keys, "container": draw(st.sampled_from(["l", "m"])),
            "then_plain": draw(st.booleans()), "a2": draw(st.sampled_from([3.0, -1.5, 0.0]))}


UNEV_OPERANDS = {
    # operand -> how it fails when evaluated (None = it evaluates)
    "r['a']": None, "r['b']": None, "e.x": None, "r['n']['p']": None,
    "r['missing']": "KeyError", "r['n']['zz']": "KeyError", "e.nope": "AttributeError", "e.sub.gone": "AttributeError",
    "r['a']['k']": "TypeError", "r['l'][9]": "IndexError", "r['s']": "TypeError(str in arithmetic)",
}


@st.composite
def unevaluable_cases(draw):
    """assignments of expressions that CANNOT be evaluated at assignment time, several of whose inputs fail in different
    ways: which error the caller sees is decided by the expression (evaluated left to right), never by the iteration
    order of a set of references"""
    good = [k for k, v in UNEV_OPERANDS.items() if v is None]
    bad = [k for k, v in UNEV_OPERANDS.items() if v is not None]
    prog = []
    for i in range(draw(st.integers(1, 3))):
        nbad = draw(st.sampled_from([1, 2, 2, 3]))
        ops = draw(st.lists(st.sampled_from(bad), min_size=nbad, max_size=nbad, unique=True))
        ops += draw(st.lists(st.sampled_from(good), min_size=0, max_size=2))
        ops = draw(st.permutations(ops))
        joiners = [draw(st.sampled_from(["+", "*", "-"])) for _ in ops[1:]]
        prog.append({"target": f"t{i}", "operands": list(ops), "joiners": joiners})
    return {"kind": "unevaluable", "program": prog}


def _unev_text(stm):
    txt = stm["operands"][0]
    for j, o in zip(stm["joiners"], stm["operands"][1:]):
        txt = f"({txt} {j} {o})"
    return txt


def _mk_key(spec):
    import numpy as np
    lib, typ, v = spec
    if lib == "np":
        return getattr(np, typ)(v)
    return v


# ------------------------------------------------------------------ interpretation (runs in the children)
def state_of(real):
    from checks.c03 import support, INDICES
    return {"contents": repr(W.canon_roots(real.roots)),
            # the dumped text in the order dump() lists it (registration order of the definitions, which a program fixes)
            "dump": [[E.norm_zero_text(a), E.norm_zero_text(b)] for a, b in real.m.dump()],
            "indices": {nm: sorted((k, sorted(v)) for k, v in support(getattr(real.m, nm)).items()) for nm in INDICES}}


def run_ops(real, ops, tr, tag=""):
    """apply ops, appending one transcript entry per op; -> False if an op raised"""
    for op in ops:
        try:
            real.apply(op)
        except RecursionError:
            tr.append([tag + W.render_op(op), "exc", "RecursionError"])
            return False
        except Exception as e:
            # the state after a failed update is NOT part of the transcript: which independent tasks ran before the
            # failing one follows set iteration order (hash seed, and the 32-bit hash of the compiled build)
            tr.append([tag + W.render_op(op), "exc", type(e).__name__])
            return False
        tr.append([tag + W.render_op(op), "ok", state_of(real)])
    return True


def state_of_safe(real):
    try:
        return state_of(real)
    except Exception as e:
        return "state-unavailable:" + type(e).__name__


def tval(fn):
    try:
        v = fn()
    except RecursionError:
        return ["exc", "RecursionError"]
    except Exception as e:
        return ["exc", type(e).__name__]
    return ["ok", repr(W.canon(v)) if not hasattr(v, "dtype") else E.show(v)]


def interpret(case):
    kind = case["kind"]
    tr = []
    if kind == "history":
        real = W.Real(H.dec_init(case))
        run_ops(real, case["ops"], tr)
        return tr
    if kind == "pickle":
        real = W.Real(H.dec_init(case))
        if not run_ops(real, case["ops"], tr):
            return tr
        try:
            m2 = pickle.loads(pickle.dumps(real.m))
        except RecursionError:
            tr.append(["pickle", "exc", "RecursionError"])
            return tr
        except Exception as e:
            tr.append(["pickle", "exc", type(e).__name__])
            return tr
        twin = W.Real.from_manager(m2)
        tr.append(["pickle", "ok", state_of(twin)])
        for op in case["follow"]:
            sides = [("orig", real), ("copy", twin)] if op["who"] == "both" else \
                [(op["who"], real if op["who"] == "orig" else twin)]
            for name, w in sides:
                if not run_ops(w, [op], tr, tag=f"[{name}] "):
                    return tr
            tr.append(["both-after", state_of(real), state_of(twin)])
        return tr
    if kind == "load":
        from checks.c03 import current_init
        real = W.Real(H.dec_init(case))
        hist, follow = case["ops"][:case["n_hist"]], case["ops"][case["n_hist"]:]
        if not run_ops(real, hist, tr):
            return tr
        try:
            dump = real.m.dump()
            if case["via_json"]:
                dump = json.loads(json.dumps(dump))
            init = {E.loc_str(k): E.get_loc(k, real.roots) for k in W.NUM_LEAVES + [W.IDX_LEAF, W.KEY_LEAF]}
            fr = W.Real(init)
            fr.m.load(dump)
        except Exception as e:
            tr.append(["load", "exc", type(e).__name__])
            return tr
        tr.append(["load", "ok", state_of(fr)])
        for op in follow:
            for name, w in (("orig", real), ("loaded", fr)):
                if not run_ops(w, [op], tr, tag=f"[{name}] "):
                    return tr
        return tr
    if kind == "arith":
        import xdeps
        data = {"x": 0, "y": 0}
        mgr = xdeps.Manager()
        ref = mgr.ref(data, "r")
        fn = E.BINOPS[case["op"]]
        for ea, eb in case["pairs"]:
            a, b = E.dec(ea), E.dec(eb)
            data["x"], data["y"] = a, b
            try:
                if case["form"] == "ref-ref":
                    ex = fn(ref["x"], ref["y"])
                elif case["form"] == "ref-lit":
                    ex = fn(ref["x"], b)
                else:
                    ex = fn(a, ref["y"])
            except Exception as e:
                tr.append(["build", "exc", type(e).__name__])
                continue
            tr.append(["value", tval(ex._get_value) if E.is_ref(ex) else ["plain", repr(ex)]])
        return tr
    if kind == "unevaluable":
        import xdeps

        class Obj:
            pass
        e_obj = Obj()
        e_obj.x = 3.0
        e_obj.sub = Obj()
        data = {"a": 2.0, "b": 5.0, "n": {"p": 7.0}, "l": [0.0, 1.0], "s": "txt"}
        mgr = xdeps.Manager()
        ns = {"r": mgr.ref(data, "r"), "e": mgr.ref(e_obj, "e")}
        for stm in case["program"]:
            text = _unev_text(stm)
            try:
                ns["r"][stm["target"]] = eval(text, {}, ns)
                tr.append(["assign", text, "ok", repr(data.get(stm["target"]))])
            except RecursionError:
                tr.append(["assign", text, "exc", "RecursionError"])
            except Exception as e:
                tr.append(["assign", text, "exc", type(e).__name__])
        try:
            ns["r"]["a"] = 4.0
            tr.append(["update a", "ok", repr(sorted((k, repr(v)) for k, v in data.items() if k != "l" and k != "n"))])
        except Exception as e:
            # the definitions left behind by the failed assignments are re-run here; when several of them read `a`, which
            # one fails first follows the iteration order: only the fact of raising is compared (see _same_entry)
            tr.append(["update a", "exc", type(e).__name__])
        return tr
    if kind == "keytypes":
        import xdeps
        data = {"a": 2.0, "l": [0.0, 1.0, 2.0, 3.0], "m": {0: 0.0, 1: 1.0, 2: 2.0, 3: 3.0, "k": 7.0, -1: 9.0, -2: 8.0}}
        mgr = xdeps.Manager()
        ref = mgr.ref(data, "r")
        cont = case["container"]

        def snap():
            return {"contents": repr(W.canon({"a": data["a"], "l": list(data["l"]), "m": dict(data["m"])})),
                    "definitions": sorted([str(k), str(t.expr)] for k, t in mgr.tasks.items()),
                    "dump": sorted(map(list, mgr.dump()))}
        for i, ks in enumerate(case["keys"]):
            try:
                ref[cont][_mk_key(ks)] = ref["a"] * float(i + 1)
                tr.append(["define", ks, "ok", snap()])
            except Exception as e:
                tr.append(["define", ks, "exc", type(e).__name__])
        if case["then_plain"]:
            for ks in case["keys"][:1]:
                try:
                    plain = ks[2] if ks[1] not in ("bool", "bool_", "float64", "float") else int(ks[2])
                    ref[cont][plain] = 5.0
                    tr.append(["plain-assign", plain, "ok", snap()])
                except Exception as e:
                    tr.append(["plain-assign", ks, "exc", type(e).__name__])
        try:
            ref["a"] = case["a2"]
            tr.append(["update", "ok", snap()])
        except Exception as e:
            tr.append(["update", "exc", type(e).__name__])
        try:
            m2 = xdeps.Manager()
            d2 = {"a": 10.0, "l": [0.0, 0.0, 0.0, 0.0], "m": {0: 0.0, 1: 0.0, 2: 0.0, 3: 0.0, "k": 0.0, -1: 0.0, -2: 0.0}}
            m2.ref(d2, "r")
            m2.load(mgr.dump())
            tr.append(["load", "ok", sorted(map(list, m2.dump()))])
        except Exception as e:
            tr.append(["load", "exc", type(e).__name__])
        return tr
    if kind == "expr":
        from checks import c11
        roots = c11.kw_roots(case, "vals")
        m, refs = c11.kw_refs(roots)
        try:
            e = E.build(case["ast"], refs)
            e_again = E.build(case["ast"], refs)
        except Exception as ex:
            return [["build", "exc", type(ex).__name__]]
        if not E.is_ref(e):
            return [["build", "plain", repr(W.canon(e)) if not hasattr(e, "dtype") else E.show(e)]]
        tr.append(["print", E.norm_zero_text(str(e))])
        tr.append(["deps", sorted(str(d) for d in e._get_dependencies())])
        tr.append(["self-equality", bool(e == e_again), bool(hash(e) == hash(e_again)), len({e, e_again})])
        deps = sorted(e._get_dependencies(), key=str)
        tr.append(["dep-equalities", [[bool(a == b), bool(hash(a) == hash(b))] for a in deps[:4] for b in deps[:4]]])
        for which in ("vals", "vals2"):
            r2 = c11.kw_roots(case, which)
            roots["d"].update(r2["d"])
            roots["ref"]["in"].update(r2["ref"]["in"])
            roots["ref"]["l"][:] = r2["ref"]["l"]
            roots["o"].a, roots["o"].b = r2["o"].a, r2["o"].b
            roots["o"].c.update(r2["o"].c)
            tr.append(["value", which, tval(e._get_value)])
        try:
            back = pickle.loads(pickle.dumps(e))
            tr.append(["pickle", "ok", E.norm_zero_text(str(back)), bool(back == e)])
        except RecursionError:
            tr.append(["pickle", "exc", "RecursionError"])
        except Exception as ex:
            tr.append(["pickle", "exc", type(ex).__name__])
        try:
            e2 = eval(str(e), {}, dict(refs))
            tr.append(["reparse", "ok", E.norm_zero_text(str(e2)), bool(e2 == e) if E.is_ref(e2) else "non-ref"])
        except Exception as ex:
            tr.append(["reparse", "exc", type(ex).__name__])
        return tr
    raise ValueError(kind)


def classify(case):
    """-> (nontrivial, classes) computed in the parent with the model only"""
    kind = case["kind"]
    cls = ["prog:" + kind]
    if kind == "expr":
        return E.n_ops(case["ast"]) >= 2, cls
    if kind == "keytypes":
        return any(k[0] == "np" for k in case["keys"]), cls + ["keytypes:" + k[1] for k in case["keys"]]
    if kind == "unevaluable":
        kinds = [{UNEV_OPERANDS[o] for o in stm["operands"]} - {None} for stm in case["program"]]
        multi = any(len(k) >= 2 for k in kinds)
        return multi, cls + (["unevaluable:>=2-inputs-failing-differently"] if multi else [])
    if kind == "arith":
        return True, cls + ["arith:" + case["op"]]
    nt = kind in ("pickle", "load")
    model = W.Model(H.dec_init(case))
    for op in case["ops"]:
        try:
            if op["op"] in ("setv", "inplace", "setc") and len(model.trigger_sets(W.tuple_loc(op["loc"]))[0]) >= 2:
                nt = True
                if "multi-task-update" not in cls:
                    cls.append("multi-task-update")
            model.apply(op)
        except Exception:
            nt = True
            cls.append("python-raises")
            break
    return nt, cls


def render(case):
    if case["kind"] == "unevaluable":
        return {"kind": "unevaluable", "assignments": [f"r[{stm['target']!r}] = {_unev_text(stm)}" for stm in case["program"]]}
    if case["kind"] == "keytypes":
        return dict(case)
    if case["kind"] == "arith":
        return {"kind": "arith", "op": case["op"], "form": case["form"], "pairs": len(case["pairs"]),
                "values": [E.show(v) if not isinstance(v, int) or abs(v) < 10 ** 30 else f"int:~1e{len(str(abs(v))) - 1}" for v in BIG]}
    if case["kind"] == "expr":
        return {"kind": "expr", "term": E.render(case["ast"]), "keys": [repr(k) for k in case["K"]]}
    out = {"kind": case["kind"], "history": W.render_case(case)}
    if case["kind"] == "pickle":
        out["follow_ups"] = [f"[{op['who']}] {W.render_op(op)}" for op in case["follow"]]
    return out


def _same_entry(a, b):
    if a == b:
        return True
    # a manager operation that raises in both: WHICH of several independent failing tasks surfaces first follows
    # iteration order - only the fact of raising is compared (expression programs stay strict: no manager involved)
    if isinstance(a, list) and isinstance(b, list) and len(a) == 3 and len(b) == 3 and a[0] == b[0] \
            and a[1] == b[1] == "exc" and a[0] not in ("build", "pickle", "reparse", "load"):
        return True
    return False


def first_difference(ta, tb):
    for i, (a, b) in enumerate(zip(ta, tb)):
        if not _same_entry(a, b):
            return i, a, b
    if len(ta) != len(tb):
        i = min(len(ta), len(tb))
        return i, (ta[i] if i < len(ta) else "<end>"), (tb[i] if i < len(tb) else "<end>")
    return None


def describe_difference(d):
    i, a, b = d

    def short(x):
        s = json.dumps(x, default=repr)
        return s if len(s) < 600 else s[:300] + " ... " + s[-250:]
    what = "entry"
    if isinstance(a, list) and isinstance(b, list) and len(a) >= 2 and len(b) >= 2:
        if a[1] != b[1]:
            what = "outcome (ok / exception)"
        elif a[1] == "exc":
            what = "exception type"
        elif isinstance(a[-1], dict) and isinstance(b[-1], dict):
            for k in ("contents", "dump", "indices"):
                if a[-1].get(k) != b[-1].get(k):
                    what = k
                    break
    return {"transcript_entry": i, "differs_in": what, "first": short(a), "second": short(b)}


def shrink_candidates(case):
    """smaller variants of a program (greedy one-step removals), parent side"""
    out = []
    if case["kind"] == "arith":
        if len(case["pairs"]) > 1:
            h = len(case["pairs"]) // 2
            out.append(dict(case, pairs=case["pairs"][:h]))
            out.append(dict(case, pairs=case["pairs"][h:]))
        return out
    if case["kind"] == "keytypes":
        for i in range(len(case["keys"])):
            if len(case["keys"]) > 1:
                out.append(dict(case, keys=case["keys"][:i] + case["keys"][i + 1:]))
        if case["then_plain"]:
            out.append(dict(case, then_plain=False))
        return out
    if case["kind"] == "expr":
        for s in E.subterms(case["ast"]):
            if E.has_ref(s):
                out.append(dict(case, ast=s))
        return out
    if case["kind"] == "unevaluable":
        prog = case["program"]
        for i in range(len(prog)):
            if len(prog) > 1:
                out.append(dict(case, program=prog[:i] + prog[i + 1:]))
            stm = prog[i]
            for j in range(len(stm["operands"])):
                if len(stm["operands"]) > 2:
                    ops2 = stm["operands"][:j] + stm["operands"][j + 1:]
                    out.append(dict(case, program=prog[:i] + [dict(stm, operands=ops2, joiners=stm["joiners"][:len(ops2) - 1])] + prog[i + 1:]))
        return out
    ops = case["ops"]
    n_hist = case.get("n_hist")
    for i in range(len(ops) - 1, -1, -1):
        c = dict(case, ops=ops[:i] + ops[i + 1:])
        if n_hist is not None:
            c["n_hist"] = n_hist - 1 if i < n_hist else n_hist
        out.append(c)
    if case["kind"] == "pickle":
        for i in range(len(case["follow"]) - 1, -1, -1):
            out.append(dict(case, follow=case["follow"][:i] + case["follow"][i + 1:]))
    return out


def valid(case):
    """a shrunk program must still be inside the generator's domain (acyclic, outside K1)"""
    if case["kind"] in ("expr", "keytypes", "arith", "unevaluable"):
        return True
    try:
        model = W.Model(H.dec_init(case))
        for op in case["ops"]:
            model.apply(op)
            if model.k1:
                return False
        model.topo()
    except AssertionError:
        return False
    except Exception:
        return True      # Python raising is part of the domain
    return True


def signature(case, diff):
    return f"C20:{case['kind']}:{diff['differs_in'].split(' ')[0]}"


def replay(ctx, case):
    raise RuntimeError("C20 replays are executed by the parent (differential)")
