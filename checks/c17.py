"""C17 - a frozen manager's expression graph cannot change, yet values still propagate.

A generated history is frozen at a drawn point (freeze_tree), subjected to every kind of API
call, unfrozen, and continued.  The model decides for every call made while frozen whether it
WOULD add / replace / remove an expression or task:
  yes  -> the call must raise ValueError and leave dump(), the supports of the four indices,
          every query answer and the container contents identical to the snapshot before it;
  no   -> (plain value on an undefined location, container overwrite, in-place with a number,
          verify, cleanup, clone, load(..., overwrite=False) of existing definitions, load([]))
          no exception, definitions / index supports unchanged, and every dependant updated
          (C01's pull-model oracle);
  refresh() may either raise ValueError or succeed - without any change in both cases.
After unfreeze_tree the history continues; the world must equal the pull model that skipped
exactly the rejected calls (the twin that never froze), its indices must be derivable from
its tasks, and its queries must equal those of a fresh manager built from the definitions.
"""
from hypothesis import strategies as st

from vlib import expr as E
from vlib import world as W
from vlib import histgen as H
from vlib.common import Failure, drive
from checks.c01 import xdeps_frame
from checks.c03 import check_indices, support, queries, fresh_from, INDICES
from checks.c11 import nonfinite_literal

RULE = ("history prefix (0..12 ops) / freeze / 2..10 calls while frozen (assign value, assign expression, in-place, unregister, "
        "container overwrite, register function task / knob, unregister task, load in three forms, copy_expr_from, refresh, "
        "verify, cleanup, clone) / unfreeze / 1..6 more ops, optionally a second freeze cycle.  Non-trivial = >= 1 rejected "
        "call and >= 1 propagating assignment (>= 1 dependant) while frozen and >= 1 definition change after unfreezing; "
        "distinct by case digest.")
ASSUMPTIONS = [
    "the model (not xdeps) decides which calls would change the expression graph",
    "known-finding class K1 is excluded by construction; value comparisons stop if a replayed case enters it",
    "a load(dump, overwrite=False) whose targets all exist and a load([]) change nothing and are required to succeed",
]
REQUIRED_CLASSES = ["frozen:rejected:sete", "frozen:rejected:setv", "frozen:rejected:inplace", "frozen:rejected:unreg",
                    "frozen:rejected:regft", "frozen:rejected:regknob", "frozen:rejected:load_same",
                    "frozen:rejected:copy_from", "frozen:accepted:setv", "frozen:accepted:load_noover",
                    "frozen:refresh", "frozen:accepted:verify", "frozen:accepted:clone", "after-unfreeze:definition-change",
                    "freeze-while-frozen", "unfreeze-while-not-frozen"]

FROZEN_KINDS = ["setv", "setv", "setv", "sete", "sete", "inplace", "inplace", "unreg", "setc", "regft", "regknob",
                "unregtask", "load_same", "load_noover", "load_empty", "copy_from", "refresh", "verify", "cleanup", "clone"]


def changes_graph(model, op):
    k = op["op"]
    if k in ("sete", "unreg", "regft", "regknob", "unregtask", "copy_from"):
        return True
    if k == "setv":
        return W.tuple_loc(op["loc"]) in model.defs
    if k == "inplace":
        return W.tuple_loc(op["loc"]) in model.defs or op["operand"][0] != "lit"
    if k == "load_same":
        return len(model.defs) > 0
    return False


@st.composite
def cases(draw, opts):
    g = H.Gen(draw, opts)
    alive = True
    for _ in range(draw(st.integers(0, 12))):
        if not g.step():
            alive = False
            break
    cycles = draw(st.sampled_from([1, 1, 1, 2]))
    for cyc in range(cycles):
        if not alive:
            break
        # freeze_tree / unfreeze_tree set and clear a flag, they do not nest: a redundant unfreeze before the freeze, a
        # second freeze while frozen, a second unfreeze afterwards change nothing
        if draw(st.integers(0, 3)) == 0:
            g.ops.append({"op": "unfreeze", "redundant": True})
        g.ops.append({"op": "freeze"})
        again = draw(st.integers(0, 12))
        for i_frozen in range(draw(st.integers(2, 10))):
            if i_frozen == again:
                g.ops.append({"op": "freeze", "redundant": True})
            kind = draw(st.sampled_from(FROZEN_KINDS))
            if kind.startswith("load") and any(nonfinite_literal(a) for a in g.model.defs.values()):
                g.count_excl("load of a definition with a captured non-finite literal (outside C11's quantifier)")
                kind = "verify"
            if kind in ("setv", "sete", "inplace", "unreg", "setc", "regft", "regknob", "unregtask"):
                op = getattr(g, "mk_" + kind)()
                if op is None:
                    op = g.mk_setv()
            elif kind == "copy_from":
                op = {"op": "copy_from", "target": draw(st.sampled_from(["a", "b", "c", "x"])),
                      "source": draw(st.sampled_from(["x", "y", "c"]))}
                if op["target"] == op["source"]:
                    op["source"] = "y" if op["target"] != "y" else "a"
            else:
                op = {"op": kind}
            if changes_graph(g.model, op):
                g.ops.append(dict(op, rejected=True))
            elif op["op"] in ("load_same", "load_noover", "load_empty", "refresh", "verify", "cleanup", "clone"):
                g.ops.append(op)
            elif not g.push(op):
                alive = False
                break
        if not alive:
            break
        g.ops.append({"op": "unfreeze"})
        if draw(st.integers(0, 4)) == 0:
            g.ops.append({"op": "unfreeze", "redundant": True})
        for _ in range(draw(st.integers(1, 6))):
            if not g.step():
                alive = False
                break
    c = g.case()
    c["shuffle"] = draw(st.integers(0, 10 ** 6))
    return c


def model_apply(model, op):
    k = op["op"]
    if k in ("freeze", "unfreeze", "load_same", "load_noover", "load_empty", "copy_from", "refresh",
             "verify", "cleanup", "clone"):
        return
    model.apply(op)


def real_apply(real, op):
    k = op["op"]
    if k == "freeze":
        real.m.freeze_tree()
    elif k == "unfreeze":
        real.m.unfreeze_tree()
    elif k == "load_same":
        real.m.load(real.m.dump())
    elif k == "load_noover":
        real.m.load(real.m.dump(), overwrite=False)
    elif k == "load_empty":
        real.m.load([])
    elif k == "copy_from":
        import xdeps
        other = xdeps.Manager()
        od = {"a": 1.0, "b": 2.0, "c": 3.0, "x": 4.0, "y": 5.0}
        oref = other.ref(od, "d")
        oref[op["target"]] = oref[op["source"]] * 2 + 1
        real.m.copy_expr_from(other, "d")
    else:
        real.apply(op)


def snapshot(real):
    return {"dump": sorted(map(tuple, real.m.dump())),
            "tasks": sorted(str(t) for t in real.m.tasks),
            "indices": {nm: support(getattr(real.m, nm)) for nm in INDICES},
            "queries": queries(real),
            "contents": W.canon_roots(real.roots)}


def snap_diff(a, b):
    for k in ("dump", "tasks", "indices", "queries", "contents"):
        if a[k] != b[k]:
            if k == "indices":
                for nm in INDICES:
                    if a[k][nm] != b[k][nm]:
                        return f"index {nm}"
            if k == "queries":
                for loc in a[k]:
                    if a[k][loc] != b[k][loc]:
                        return f"query answers for {loc}"
            return k
    return None


def exec_case(ctx, case):
    init = H.dec_init(case)
    model = W.Model(init)
    real = W.Real(init)
    classes = set()
    rendered = {"history": [("[rejected] " if op.get("rejected") else "") + W.render_op(op) for op in case["ops"]]}
    frozen = False
    seen = {"rejected": 0, "propagated": 0, "after": 0, "ever_frozen": False}

    def finish(f, nt=None):
        if nt is None:
            nt = seen["rejected"] >= 1 and seen["propagated"] >= 1 and seen["after"] >= 1
        ctx.stats.case(rendered, nt, ["freeze"] + sorted(classes))
        return f

    for i, op in enumerate(case["ops"]):
        k = op["op"]
        where = {"step": i, "op": rendered["history"][i], "history": rendered["history"][:i + 1]}
        if k == "freeze":
            if op.get("redundant"):
                classes.add("freeze-while-frozen")
            frozen = True
            seen["ever_frozen"] = True
            real_apply(real, op)
            continue
        if k == "unfreeze":
            if op.get("redundant"):
                classes.add("unfreeze-while-not-frozen")
            frozen = False
            real_apply(real, op)
            continue
        k1 = model.k1
        if frozen:
            before = snapshot(real)
            if op.get("rejected"):
                classes.add("frozen:rejected:" + k)
                seen["rejected"] += 1
                try:
                    real_apply(real, op)
                    exc = None
                except Exception as e:
                    exc = e
                if exc is None:
                    return finish(Failure(f"C17:frozen-call-not-rejected:{k}", where), True)
                if not isinstance(exc, ValueError):
                    return finish(Failure(f"C17:frozen-call-raises-{type(exc).__name__}:{k}:{xdeps_frame(exc)}",
                                          dict(where, raised=repr(exc)[:300])), True)
                what = snap_diff(before, snapshot(real))
                if what is not None:
                    return finish(Failure(f"C17:rejected-call-changed-state:{k}", dict(where, changed=what)), True)
                continue
            if k == "refresh":
                classes.add("frozen:refresh")
                try:
                    real_apply(real, op)
                    classes.add("frozen:refresh:succeeds")
                except ValueError:
                    classes.add("frozen:refresh:raises")
                except Exception as e:
                    return finish(Failure(f"C17:frozen-refresh-raises-{type(e).__name__}", dict(where, raised=repr(e)[:300])), True)
                what = snap_diff(before, snapshot(real))
                if what is not None:
                    return finish(Failure("C17:frozen-refresh-changed-state", dict(where, changed=what)), True)
                continue
            classes.add("frozen:accepted:" + k)
            if k in ("setv", "inplace", "setc") and model.trigger_sets(W.tuple_loc(op["loc"]))[0]:
                seen["propagated"] += 1
        else:
            if seen["ever_frozen"] and k in ("sete", "unreg", "regft", "regknob", "unregtask") or \
                    (seen["ever_frozen"] and k in ("setv", "inplace") and
                     (W.tuple_loc(op["loc"]) in model.defs or (k == "inplace" and op["operand"][0] != "lit"))):
                seen["after"] += 1
                classes.add("after-unfreeze:definition-change")
        mexc = rexc = None
        try:
            model_apply(model, op)
        except Exception as e:
            mexc = e
        try:
            real_apply(real, op)
        except Exception as e:
            rexc = e
        if mexc is not None:
            classes.add("python-raises")
            if rexc is None and not model.k1:
                return finish(Failure("C17:no-exception-where-python-raises", dict(where, python=type(mexc).__name__)), True)
            return finish(None)
        if rexc is not None:
            if model.k1:
                return finish(None)
            tag = "frozen-" if frozen else ""
            return finish(Failure(f"C17:{tag}exception:{type(rexc).__name__}:{k}:{xdeps_frame(rexc)}",
                                  dict(where, raised=repr(rexc)[:300])), True)
        if not model.k1:
            d = W.diff_roots(real.roots, model.roots)
            if d is not None:
                tag = "while-frozen" if frozen else ("after-unfreeze" if seen["ever_frozen"] else "before-freeze")
                return finish(Failure(f"C17:stale-or-wrong-value:{tag}",
                                      dict(where, location=d[0], real=d[1], expected=d[2])), True)
        if frozen:
            after = snapshot(real)
            for part in ("dump", "tasks", "indices"):
                if before[part] != after[part]:
                    return finish(Failure(f"C17:accepted-frozen-call-changed-graph:{k}", dict(where, changed=part)), True)
        f = check_indices(real.m, where)
        if f:
            f.sig = f.sig.replace("C03:", "C17:")
            return finish(f, True)
    # ---- as if never frozen: same answers as a fresh manager built from the surviving definitions
    try:
        fr = fresh_from(model, case.get("shuffle", 1))
        q0, q1 = queries(real), queries(fr)
        for loc in q0:
            if q0[loc] != q1[loc]:
                return finish(Failure("C17:final-query-differs-from-fresh-manager",
                                      {"history": rendered["history"], "location": loc}), True)
        real.m.verify()
    except Exception as e:
        return finish(Failure(f"C17:final:{type(e).__name__}:{xdeps_frame(e)}",
                              {"history": rendered["history"], "raised": repr(e)[:300]}), True)
    for why, n in case.get("excluded", {}).items():
        ctx.stats.excluded[why] += n
    return finish(None)


def run(ctx):
    n = ctx.n(250, 2500)
    opts = H.Opts(max_ops=12, math_builtins=False, fresh=True)
    drive(ctx, cases(opts), lambda c: exec_case(ctx, c), n, salt=1, label="C17")


def replay(ctx, case):
    return exec_case(ctx, case)
