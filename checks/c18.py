"""C18 - a failure in the middle of an update is reported and fully recoverable.

A generated history builds a task graph over fault-injecting containers (every container write,
every call of a user function of F and every function-task action is an *event*).  One observed
assignment (value or expression) is first executed fault-free on a twin world: its event
sequence W and final state are the reference.  Then, for crash points k in 0..|W|-1
(all of them when |W| <= 8, else 0, last and drawn ones), on a fresh world built from the same
history the k-th event raises a harness exception:
  * that very exception object reaches the caller;
  * the events observed are exactly W[0..k] (the k-th being the failed one): everything
    scheduled before the fault took effect, nothing after it ran;
  * the contents equal the pre-state with the writes of W[:k] applied;
  * dump(), the supports of the four indices, verify() and every query answer equal the
    twin's after its fault-free assignment (the definitional part of an assignment precedes
    any write, and a fault does not touch the graph);
  * repeating the assignment fault-free gives exactly the twin's final contents.
A further world takes several faulty attempts in a row (drawn k's) before the repeat.
"""
import copy as _copy

from hypothesis import strategies as st

from vlib import expr as E
from vlib import world as W
from vlib import histgen as H
from vlib.common import Failure, drive
from checks.c01 import xdeps_frame
from checks.c03 import check_indices, support, queries, INDICES

RULE = ("history of 2..20 operations (expression and function tasks, nested targets, user functions) + one observed "
        "assignment (value or expression); crash point k ranges over the events of the fault-free update (container "
        "writes incl. the assigned location itself, user-function calls, function-task actions).  Non-trivial = |W| >= 3 "
        "and some 0 < k < |W|-1 explored; distinct by (history, assignment) digest; evaluations counts (case, k) executions.")
ASSUMPTIONS = [
    "linear knobs have a single target here: a knob that fails between two of its own target writes has applied half of an "
    "increment, and re-running an incremental task cannot know that (by design)",
    "the observed assignment is a value or expression assignment (an in-place operator is a different assignment each time)",
    "known-finding class K1 is excluded by construction (C01)",
    "the definitions compared are those the fault-free assignment establishes (set_value registers before it writes)",
]
LEVEL = "fault_enumeration"
REQUIRED_CLASSES = ["fault:k=0(assigned-location)", "fault:mid", "fault:last", "fault:user-function",
                    "fault:function-task-action", "consecutive-faults", "observed:sete", "observed:setv",
                    "fault-type:KeyError", "fault-type:AttributeError", "fault-type:Injected", "fault-type:RuntimeError",
                    "with-linear-knob", "two-stage", "two-stage:target-did-not-exist-and-first-write-failed"]


class Injected(Exception):
    pass


# the failing write / call may raise anything: a private exception type, or a type the library itself handles
# somewhere (KeyError / AttributeError from a container that refuses the entry, ValueError, RuntimeError ...)
FAULT_TYPES = {"Injected": Injected, "KeyError": KeyError, "AttributeError": AttributeError, "IndexError": IndexError,
               "ValueError": ValueError, "RuntimeError": RuntimeError, "TypeError": TypeError, "OSError": OSError}


def instrument_functions(roots):
    """wrap the user functions of F so that each call is an event"""
    for name in list(roots["F"]):
        fn = roots["F"][name]

        def wrapper(*a, _fn=fn, _name=name, **k):
            W._event(("fcall", _name))
            return _fn(*a, **k)
        wrapper.__name__ = name
        dict.__setitem__(roots["F"], name, wrapper)


def build_world(case):
    init = H.dec_init(case)
    real = W.Real(init)
    instrument_functions(real.roots)
    for op in case["ops"]:
        real.apply(op)
    return real


def canon_event(ev):
    if ev[0] == "w":
        return ("w", ev[1], W.canon(ev[2]))
    return tuple(ev)


def run_observed(real, obs, fault_at=None, fault_type="Injected"):
    """-> (events, exception, injected object)"""
    W.TRACE = []
    inj = FAULT_TYPES[fault_type](f"injected at event {fault_at}")
    counter = {"n": 0}

    def fault(ev):
        i = counter["n"]
        counter["n"] += 1
        if fault_at is not None and i == fault_at:
            raise inj
    W.FAULT = fault
    exc = None
    try:
        real.apply(obs)
    except BaseException as e:
        if isinstance(e, (KeyboardInterrupt, SystemExit)):
            raise
        exc = e
    finally:
        trace, W.TRACE, W.FAULT = W.TRACE, None, None
    return [canon_event(e) for e in trace], trace, exc, inj


def apply_writes(roots, raw_events):
    """apply the writes among raw_events to (uninstrumented-event) containers"""
    for ev in raw_events:
        if ev[0] != "w":
            continue
        ns = {"d": roots["d"], "e": roots["e"], "g": roots["g"], "F": roots["F"], "__v": _copy.deepcopy(ev[2])}
        exec(ev[1] + " = __v", {}, ns)


def graph_state(real):
    return {"dump": sorted(map(tuple, real.m.dump())), "tasks": sorted(str(t) for t in real.m.tasks),
            "indices": {nm: support(getattr(real.m, nm)) for nm in INDICES}, "queries": queries(real)}


def canon_data(roots):
    c = W.canon_roots(roots)
    c.pop("F", None)        # F holds the instrumented wrappers (never assigned)
    return c


@st.composite
def cases(draw, opts):
    g = H.Gen(draw, opts)
    for _ in range(draw(st.integers(2, opts.max_ops))):
        if not g.step():
            break
    c = g.case()
    c["raised"] = g.raised
    c["obs"] = None
    if g.raised:
        return c
    n_before = len(g.ops)
    kind = draw(st.sampled_from(["setv", "setv", "sete"]))
    op = g.mk_setv() if kind == "setv" else (g.mk_sete() or g.mk_setv())
    if g.push(op) and len(g.ops) == n_before + 1 and "expect_raise" not in g.ops[-1]:
        c["obs"] = g.ops.pop()
    else:
        del g.ops[n_before:]
    c["ops"] = list(g.ops)
    # a second, DIFFERENT assignment for the two-stage family: a plain value for an input of the observed definition
    # (executed after a faulty first attempt, and failing itself)
    c["obs2"] = None
    c["k1"] = draw(st.sampled_from([0, 0, 0, 1, 2, 5]))
    if c["obs"] is not None and c["obs"]["op"] == "sete":
        rd = sorted(k for k in E.reads(c["obs"]["ast"]) if k in W.NUM_LEAVES or k in (W.IDX_LEAF, W.KEY_LEAF))
        if rd:
            k = draw(st.sampled_from(rd))
            v = draw(st.integers(0, 2)) if k == W.IDX_LEAF else draw(st.sampled_from(["p", "q"])) if k == W.KEY_LEAF \
                else draw(H.hist_numbers)
            c["obs2"] = {"op": "setv", "loc": W.json_loc(k), "v": E.enc(v)}
    c["ks"] = [draw(st.integers(0, 40)) for _ in range(4)]
    c["seq"] = [draw(st.integers(0, 40)) for _ in range(draw(st.integers(2, 3)))]
    c["fault_type"] = draw(st.sampled_from(sorted(FAULT_TYPES)))
    return c


def exec_case(ctx, case):
    classes = set()
    obs = case.get("obs")
    rendered = {"history": W.render_case(case), "observed": W.render_op(obs) if obs else None}
    state = {"nt": False}

    def finish(f, nt=None):
        ctx.stats.case(rendered, state["nt"] if nt is None else nt, ["fault"] + sorted(classes))
        return f
    for why, n in case.get("excluded", {}).items():
        ctx.stats.excluded[why] += n
    if case.get("raised") or obs is None:
        classes.add("history-ends-in-exception")
        return finish(None, False)
    model = W.Model(H.dec_init(case))
    try:
        for op in case["ops"]:
            model.apply(op)
        pre_roots = _copy.deepcopy(model.roots)
        twin = build_world(case)
    except Exception:
        classes.add("history-ends-in-exception")
        return finish(None, False)
    if model.k1 or model.k1_now() is not None:
        classes.add("K1-class(replayed)")
        return finish(None, False)
    classes.add("observed:" + obs["op"])
    if model.knobs:
        classes.add("with-linear-knob")
    classes.add("fault-type:" + case.get("fault_type", "Injected"))
    where = {"history": rendered["history"], "observed": rendered["observed"]}
    # ---- reference: the fault-free update on the twin
    Wc, Wraw, exc, _ = run_observed(twin, obs, None)
    try:
        model.apply(obs)
        mexc = None
    except Exception as e:
        mexc = e
    if exc is not None or mexc is not None:
        classes.add("observed-assignment-raises")
        return finish(None, False)
    if model.k1:
        classes.add("K1-class(replayed)")
        return finish(None, False)
    d = W._diff(twin.roots["d"], model.roots["d"], "d") or W._diff(twin.roots["e"], model.roots["e"], "e") or \
        W._diff(twin.roots["g"], model.roots["g"], "g")
    if d is not None:
        return finish(Failure("C18:fault-free-update-differs-from-model",
                              dict(where, location=d[0], real=d[1], expected=d[2])), True)
    ref_graph = graph_state(twin)
    ref_final = canon_data(twin.roots)
    n = len(Wc)
    classes.add("|W|>=3" if n >= 3 else f"|W|={n}")
    if n == 0:
        return finish(None, False)
    if n <= 8:
        ks = list(range(n))
    else:
        ks = sorted({0, n - 1, n // 2} | {k % n for k in case["ks"]})

    def one_fault(world, k, label):
        """one faulty attempt on `world`; -> Failure|None"""
        ev = Wc[k]
        if k == 0:
            classes.add("fault:k=0(assigned-location)" if ev[0] == "w" else "fault:k=0(user-function)")
        elif k == n - 1:
            classes.add("fault:last")
        else:
            classes.add("fault:mid")
            if n >= 3:
                state["nt"] = True
        if ev[0] == "fcall":
            classes.add("fault:user-function")
        if ev[0] == "call":
            classes.add("fault:function-task-action")
        ctx.stats.evaluations += 1
        ctx.stats.extra["crash_points_executed"] = ctx.stats.extra.get("crash_points_executed", 0) + 1
        got, _, exc, inj = run_observed(world, obs, k, case.get("fault_type", "Injected"))
        wh = dict(where, crash_point=k, events=n, fault_type=case.get("fault_type", "Injected"), failing_event=repr(ev)[:120], attempt=label)
        if exc is None:
            return Failure("C18:fault-swallowed", wh)
        if exc is not inj:
            return Failure(f"C18:other-exception-reaches-caller:{type(exc).__name__}", dict(wh, raised=repr(exc)[:200]))
        if got != Wc[:k + 1]:
            j = next((i for i, (a, b) in enumerate(zip(got, Wc)) if a != b), min(len(got), k + 1))
            return Failure("C18:events-differ-from-prefix",
                           dict(wh, first_difference=j, observed=repr(got[j:j + 2])[:300], expected=repr(Wc[j:j + 2])[:300],
                                observed_len=len(got)))
        # contents: pre-state + writes of W[:k]   (for consecutive faults: the max prefix reached so far)
        return None

    # ---- every chosen crash point on a fresh world
    for k in ks:
        try:
            world = build_world(case)
        except Exception:
            return finish(None, False)
        f = one_fault(world, k, "single")
        if f:
            return finish(f, True)
        wh = dict(where, crash_point=k, events=n, failing_event=repr(Wc[k])[:120])
        expect = _copy.deepcopy(pre_roots)
        apply_writes(expect, Wraw[:k])
        if canon_data(world.roots) != canon_data(expect):
            dd = W._diff(world.roots["d"], expect["d"], "d") or W._diff(world.roots["e"], expect["e"], "e") or \
                W._diff(world.roots["g"], expect["g"], "g")
            return finish(Failure("C18:contents-differ-from-prefix-state",
                                  dict(wh, location=dd[0] if dd else "?", real=dd[1] if dd else "?",
                                       expected=dd[2] if dd else "?")), True)
        f = graph_checks(world, ref_graph, wh)
        if f:
            return finish(f, True)
        got, _, exc, _ = run_observed(world, obs, None)
        if exc is not None:
            return finish(Failure(f"C18:repeat-raises:{type(exc).__name__}:{xdeps_frame(exc)}",
                                  dict(wh, raised=repr(exc)[:200])), True)
        if canon_data(world.roots) != ref_final:
            dd = W._diff(world.roots["d"], twin.roots["d"], "d") or W._diff(world.roots["e"], twin.roots["e"], "e") or \
                W._diff(world.roots["g"], twin.roots["g"], "g")
            return finish(Failure("C18:repeat-does-not-recover",
                                  dict(wh, location=dd[0] if dd else "?", real=dd[1] if dd else "?",
                                       expected=dd[2] if dd else "?")), True)
        f = graph_checks(world, ref_graph, dict(wh, after="repeat"))
        if f:
            return finish(f, True)
    # ---- several faulty attempts in a row on one world
    if n >= 2:
        classes.add("consecutive-faults")
        try:
            world = build_world(case)
        except Exception:
            return finish(None, False)
        for a, kk in enumerate(case["seq"]):
            k = kk % n
            f = one_fault(world, k, f"consecutive#{a}")
            if f:
                return finish(f, True)
            f = graph_checks(world, ref_graph, dict(where, crash_point=k, attempt=f"consecutive#{a}"))
            if f:
                return finish(f, True)
        got, _, exc, _ = run_observed(world, obs, None)
        if exc is not None:
            return finish(Failure(f"C18:repeat-raises:{type(exc).__name__}:{xdeps_frame(exc)}",
                                  dict(where, after="consecutive faults", raised=repr(exc)[:200])), True)
        if got != Wc:
            return finish(Failure("C18:repeat-events-differ", dict(where, after="consecutive faults")), True)
        if canon_data(world.roots) != ref_final:
            dd = W._diff(world.roots["d"], twin.roots["d"], "d") or W._diff(world.roots["e"], twin.roots["e"], "e") or \
                W._diff(world.roots["g"], twin.roots["g"], "g")
            return finish(Failure("C18:repeat-does-not-recover",
                                  dict(where, after="consecutive faults", location=dd[0] if dd else "?",
                                       real=dd[1] if dd else "?", expected=dd[2] if dd else "?")), True)
    # ---- two stages: a faulty attempt of the observed assignment (at its first write when k1 = 0: a location that did
    # not exist yet is then still missing, with its definition registered), then a DIFFERENT assignment - a new value for
    # an input of that definition - that fails at each of its own crash points; reference: a twin that took the same
    # first fault and then the second assignment fault-free
    obs2 = case.get("obs2")
    if obs2 is not None and n >= 1:
        k1 = case.get("k1", 0) % n
        ft = case.get("fault_type", "Injected")

        def prepared():
            w = build_world(case)
            run_observed(w, obs, k1, ft)
            return w
        try:
            twin2 = prepared()
        except Exception:
            return finish(None)
        W2c, W2raw, exc2, _ = run_observed(twin2, obs2, None)
        if exc2 is not None:
            classes.add("two-stage:second-assignment-raises-without-fault")
            return finish(None)
        classes.add("two-stage")
        tloc = W.tuple_loc(obs["loc"])
        if tloc in W.FRESH_LEAVES and k1 == 0:
            classes.add("two-stage:target-did-not-exist-and-first-write-failed")
        ref2_graph = graph_state(twin2)
        ref2_final = canon_data(twin2.roots)
        n2 = len(W2c)
        for k2 in (range(n2) if n2 <= 6 else sorted({0, 1, n2 - 1, n2 // 2})):
            w = prepared()
            ctx.stats.evaluations += 1
            ctx.stats.extra["crash_points_executed"] = ctx.stats.extra.get("crash_points_executed", 0) + 1
            got, _, exc, inj = run_observed(w, obs2, k2, ft)
            wh = dict(where, first_attempt=f"fault at event {k1} of {n}", second_assignment=W.render_op(obs2),
                      crash_point=k2, events=n2, fault_type=ft, failing_event=repr(W2c[k2])[:120])
            if exc is None:
                return finish(Failure("C18:fault-swallowed", wh), True)
            if exc is not inj:
                return finish(Failure(f"C18:other-exception-reaches-caller:{type(exc).__name__}", dict(wh, raised=repr(exc)[:200])), True)
            if got != W2c[:k2 + 1]:
                return finish(Failure("C18:events-differ-from-prefix", dict(wh, observed=repr(got[-2:])[:300], expected=repr(W2c[:k2 + 1][-2:])[:300])), True)
            f = graph_checks(w, ref2_graph, wh)
            if f:
                return finish(f, True)
            got, _, exc, _ = run_observed(w, obs2, None)
            if exc is not None:
                return finish(Failure(f"C18:repeat-raises:{type(exc).__name__}:{xdeps_frame(exc)}", dict(wh, raised=repr(exc)[:200])), True)
            if canon_data(w.roots) != ref2_final:
                dd = W._diff(w.roots["d"], twin2.roots["d"], "d") or W._diff(w.roots["e"], twin2.roots["e"], "e") or \
                    W._diff(w.roots["g"], twin2.roots["g"], "g")
                return finish(Failure("C18:repeat-does-not-recover", dict(wh, location=dd[0] if dd else "?", real=dd[1] if dd else "?",
                                                                         expected=dd[2] if dd else "?")), True)
    return finish(None)


def graph_checks(world, ref_graph, wh):
    g = graph_state(world)
    for part in ("dump", "tasks", "indices", "queries"):
        if g[part] != ref_graph[part]:
            return Failure(f"C18:graph-changed-by-fault:{part}", wh)
    try:
        world.m.verify()
    except Exception as e:
        return Failure("C18:verify-raises-after-fault", dict(wh, raised=repr(e)[:200]))
    f = check_indices(world.m, wh)
    if f:
        f.sig = f.sig.replace("C03:", "C18:")
        return f
    return None


def run(ctx):
    n = ctx.n(400, 3000)
    opts = H.Opts(knobs=True, knob_single_target=True, max_ops=20, maint=False, fresh=True)
    drive(ctx, cases(opts), lambda c: exec_case(ctx, c), n, salt=1, label="C18")


def replay(ctx, case):
    return exec_case(ctx, case)
