"""C04 - deferred expressions evaluate to what Python computes on the operand values.

Three generated domains, one oracle (the mirror: the same Python operator applied
to the operands' current values; / // % by zero -> NaN at that node only):
  grid     exhaustive operator x operand-order x value-pair differential
  inplace  every in-place operator on plain and on defined locations
  trees    random expression trees over container-backed operands, re-evaluated
           after the operands change (pull evaluation, no manager involved)
"""
import itertools
import operator
import copy

import numpy as np
from hypothesis import strategies as st

from vlib import expr as E
from vlib import gen as G
from vlib.common import Failure, drive

RULE = ("grid: every binary operator x {ref-ref, ref-lit, lit-ref} x palette value pairs, "
        "every unary operator / builtin x palette, every in-place operator x {plain, defined} x "
        "{number, expression} operand (enumerated); trees: Hypothesis-generated terms (depth<=5) over "
        "dict/list/attribute containers holding ints, floats, bools, complex, numpy scalars and small "
        "arrays, evaluated on two successive environments.  Oracle: same value AND type as the mirrored "
        "Python term, or the same exception type.  Non-trivial = the term has >=2 operator nodes, or "
        "Python raises, or a zero divisor occurs, or (grid) the pair mixes two value kinds; distinct by "
        "(term, environment) digest.")
ASSUMPTIONS = [
    "literal operands are hashable Python numbers; numpy values occur only inside containers and "
    "never to the left of a ref (numpy would own the operator)",
    "exponents and shift counts are leaves with |v| <= 64 (Python itself is unbounded there)",
    "trusted: CPython and numpy arithmetic (the mirror performs the same operations)",
]
ENGINE = "enumeration + hypothesis"
EXHAUSTIVE_OVERALL = False

CONT_PALETTE = [
    0, 1, -1, 2, 7, -13, 2 ** 40, True, False, 0.0, -0.0, 1.5, -2.25, float("inf"),
    float("nan"), 1 + 2j, np.float64(2.5), np.int64(3), np.float32(1.5),
    np.array([1.0, -2.0, 0.0]), np.array([3, 0, -1]),
]
LIT_PALETTE = [0, 1, -1, 3, 7, True, 0.0, 1.5, -2.25, float("inf"), float("nan"), 1 + 2j]
SMALL_PALETTE = [0, 1, -1, 2, 3, -2, 6, True, 0.5, 0.0, 64]


def kind_of(v):
    if isinstance(v, np.ndarray):
        return "array"
    if isinstance(v, np.generic):
        return "npscalar"
    return type(v).__name__


class Obj:
    pass


def make_world(values):
    """values: dict name -> value.  returns (roots, refs, manager)"""
    import xdeps
    d = dict(values)
    m = xdeps.Manager()
    roots = {"d": d, "F": dict(E.FUNCS)}
    refs = {"d": m.ref(d, "d"), "F": m.ref(roots["F"], "F")}
    return roots, refs, m


def outcome(fn):
    try:
        return ("ok", fn())
    except RecursionError:
        raise
    except Exception as e:  # the contract includes "raises what Python raises"
        return ("exc", type(e).__name__)


def compare(real, want):
    """-> None or (kind, text)"""
    if real[0] != want[0]:
        return ("exception", f"real={show_out(real)} python={show_out(want)}")
    if real[0] == "exc":
        if real[1] != want[1]:
            return ("exception", f"real raises {real[1]} python raises {want[1]}")
        return None
    if not E.same(real[1], want[1]):
        k = "type" if type(real[1]) is not type(want[1]) else "value"
        return (k, f"real={E.show(real[1])} python={E.show(want[1])}")
    return None


def show_out(o):
    return E.show(o[1]) if o[0] == "ok" else f"raises {o[1]}"


# --------------------------------------------------------------------- grid
def eval_term(ast, values):
    roots, refs, m = make_world(values)
    real = outcome(lambda: E.build(ast, refs)._get_value())
    want = outcome(lambda: E.mirror(ast, roots))
    return real, want


def grid_cases():
    x = E.loc("d", ("i", "x"))
    y = E.loc("d", ("i", "y"))
    for op in E.BINOPS:
        rhs_small = op in ("**", "<<")
        for order in ("ref-ref", "ref-lit", "lit-ref"):
            if order == "ref-ref":
                la, lb = CONT_PALETTE, (SMALL_PALETTE if rhs_small else CONT_PALETTE)
            elif order == "ref-lit":
                la, lb = CONT_PALETTE, (SMALL_PALETTE if rhs_small else LIT_PALETTE)
            else:
                la, lb = LIT_PALETTE, (SMALL_PALETTE if rhs_small else CONT_PALETTE)
            for a, b in itertools.product(la, lb):
                if op == "**" and isinstance(a, int) and abs(a) > 2 ** 20 and isinstance(b, float):
                    pass
                if order == "ref-ref":
                    ast = ["bin", op, x, y]
                elif order == "ref-lit":
                    ast = ["bin", op, x, E.lit(b)]
                else:
                    ast = ["bin", op, E.lit(a), y]
                yield ("bin", op, order), ast, {"x": a, "y": b}
    # ints beyond the float range: Python raises OverflowError for int / int and int (op) float there - not a zero division
    huge = [10 ** 400, -10 ** 400, 2 ** 1024]
    partners = [3, -7, 3.0, 0.5, 0, 0.0, 1e308, True]
    for op in ("+", "-", "*", "/", "//", "%", "<", ">="):
        for a, b in itertools.product(huge, partners):
            yield ("bin", op, "huge-left"), ["bin", op, x, y], {"x": a, "y": b}
            yield ("bin", op, "huge-right"), ["bin", op, x, y], {"x": b, "y": a}
            yield ("bin", op, "huge-lit"), ["bin", op, x, E.lit(b)], {"x": a, "y": 0}
    for op in E.UNOPS:
        for a in CONT_PALETTE:
            yield ("un", op, "ref"), ["un", op, x], {"x": a, "y": 0}
    for name in E.BUILTINS:
        for a in CONT_PALETTE:
            if name == "round":
                yield ("bi", "round", "ref"), ["bi", "round", x, []], {"x": a, "y": 0}
                for n in (0, 1, -1, 2):
                    yield ("bi", "round-n", "ref-lit"), ["bi", "round", x, [E.lit(n)]], {"x": a, "y": 0}
                    yield ("bi", "round-n", "ref-ref"), ["bi", "round", x, [y]], {"x": a, "y": n}
            elif name == "divmod":
                for b in LIT_PALETTE:
                    yield ("bi", "divmod", "ref-lit"), ["bi", "divmod", x, [E.lit(b)]], {"x": a, "y": 0}
                for b in CONT_PALETTE:
                    yield ("bi", "divmod", "ref-ref"), ["bi", "divmod", x, [y]], {"x": a, "y": b}
            else:
                yield ("bi", name, "ref"), ["bi", name, x, []], {"x": a, "y": 0}
    # comparisons to ==/!= through the documented deferred forms
    for which in ("eq", "neq"):
        for a, b in itertools.product(CONT_PALETTE, LIT_PALETTE):
            yield (which, which, "ref-lit"), [which, x, E.lit(b)], {"x": a, "y": 0}
        for a, b in itertools.product(CONT_PALETTE, CONT_PALETTE):
            yield (which, which, "ref-ref"), [which, x, y], {"x": a, "y": b}


def run_grid(ctx):
    cases = list(grid_cases())
    cells = set()
    for i, (cell, ast, values) in enumerate(cases):
        if i % ctx.nshards != ctx.shard:
            continue
        real, want = eval_term(ast, values)
        kinds = {kind_of(v) for v in values.values()}
        nt = len(kinds) > 1 or want[0] == "exc" or any(
            (isinstance(v, (int, float)) and not isinstance(v, bool) and v == 0) for v in values.values())
        rep = {"grid": E.render(ast), "x": E.show(values["x"]), "y": E.show(values["y"]),
               "python": show_out(want)}
        ctx.stats.case(rep, nt, classes=[f"grid:{cell[0]}:{cell[1]}:{cell[2]}"])
        cells.add(cell)
        bad = compare(real, want)
        if bad:
            sig = f"C04:{cell[0]}:{cell[1].split('-')[0]}"
            ctx.fail(Failure(sig, {"term": E.render(ast), "x": E.show(values["x"]),
                                   "y": E.show(values["y"]), "diff": bad[1]}),
                     {"kind": "term", "ast": ast,
                      "env": [{k: E.enc(v) for k, v in values.items()}]})
    ctx.stats.exhaustive["operator x operand-order x palette grid"] = True
    ctx.stats.extra["grid_cells"] = len(cells)


# --------------------------------------------------------------------- in-place
def inplace_case(op, defined, operand_kind, va, vb, vk):
    """Execute `d['a'] op= operand` the way the Python statement does.
    returns Failure|None and a representation"""
    import xdeps
    values = {"a": va, "b": vb, "c": vk}
    roots, refs, m = make_world(values)
    a = E.loc("d", ("i", "a"))
    b = E.loc("d", ("i", "b"))
    c = E.loc("d", ("i", "c"))
    old_ast = None
    if defined:
        # 'alias': the current definition is a bare ref (a = b), the smallest expression there is
        old_ast = b if defined == "alias" else ["bin", "*", b, E.lit(2)]
        refs["d"]["a"] = E.build(old_ast, refs)
    if operand_kind == "number":
        operand_ast = E.lit(vk)
    else:
        operand_ast = ["bin", "+", c, E.lit(1)]
    operand = E.build(operand_ast, refs)
    model = copy.deepcopy(roots["d"])
    mroots = {"d": model, "F": roots["F"]}
    # ---- expected
    if defined:
        new_ast = ["bin", op, old_ast, operand_ast]
    elif operand_kind == "number":
        new_ast = None
    else:
        new_ast = ["bin", op, E.lit(model["a"]), operand_ast]

    def expected():
        if defined:
            model["a"] = E.mirror(old_ast, mroots)
        if new_ast is None:
            model["a"] = E.BINOPS[op](model["a"], vk)   # plain Python, raises like Python
        else:
            model["a"] = E.mirror(new_ast, mroots)
        return model["a"]

    want = outcome(expected)

    def real_stmt():
        tmp = refs["d"]["a"]
        tmp = E.IOPS[op](tmp, operand)
        refs["d"]["a"] = tmp
        return roots["d"]["a"]

    old_obj = roots["d"]["a"]
    old_snapshot = copy.deepcopy(old_obj) if isinstance(old_obj, np.ndarray) else None
    real = outcome(real_stmt)
    if old_snapshot is not None and not defined and not E.same(old_obj, old_snapshot):
        # `ref op= x` is `ref = ref.__iop__(x)`: a NEW value is assigned, the old object must not be mutated
        return Failure(f"C04:inplace:{op}:old-value-mutated",
                       {"stmt": f"d['a'] {op}= {E.render(operand_ast)}", "before": E.show(old_snapshot),
                        "after": E.show(old_obj)}), {"inplace": f"d['a'] {op}= ..."}
    rep = {"inplace": f"d['a'] {op}= {E.render(operand_ast)}", "defined_as": E.render(old_ast) if old_ast else None,
           "a": E.show(va), "b": E.show(vb), "c": E.show(vk), "python": show_out(want)}
    bad = compare(real, want)
    if bad:
        return Failure(f"C04:inplace:{op}", {"stmt": rep, "diff": bad[1]}), rep
    if want[0] == "ok":
        # resulting definition
        got = refs["d"]["a"]._expr
        if new_ast is None:
            if got is not None or refs["d"]["a"] in m.tasks:
                return Failure(f"C04:inplace:{op}",
                               {"stmt": rep, "diff": f"in-place on a plain location left a definition {got!r}"}), rep
        else:
            if got is None:
                return Failure(f"C04:inplace:{op}",
                               {"stmt": rep, "diff": "no definition after in-place with expression"}), rep
            ub = E.unbuild(got)
            if not E.ast_equal(ub, new_ast):
                return Failure(f"C04:inplace:{op}",
                               {"stmt": rep, "diff": f"definition {E.render(ub)} expected {E.render(new_ast)}"}), rep
            # the new definition follows its operands
            for k, nv in (("b", 5), ("c", 3)):
                model[k] = nv
                w2 = outcome(lambda: E.mirror(new_ast, mroots))
                if w2[0] != "ok":
                    break       # the follow-up value makes Python raise: not part of this clause

                def assign():
                    refs["d"][k] = nv
                    return roots["d"]["a"]
                r2 = outcome(assign)
                bad = compare(r2, w2)
                if bad:
                    return Failure(f"C04:inplace:{op}", {"stmt": rep, "diff": bad[1]}), rep
    else:
        # Python raised: nothing may have changed
        if not E.same(roots["d"]["a"], va if not defined else roots["d"]["a"]):
            return Failure(f"C04:inplace:{op}", {"stmt": rep}), rep
    return None, rep


def inplace_cases():
    pal = [0, 1, 7, -13, True, 0.0, 1.5, -2.25, 1 + 2j]
    for op in E.IOPS:
        if op == "@":
            pal_a = [np.array([[1.0, 2.0], [3.0, 4.0]]), 3]
            pal_k = [np.array([1.0, -1.0]), 2]
        else:
            pal_a = pal + ([np.array([1.0, -2.0, 0.5]), np.array([3, 0, -1])] if op in ("+", "-", "*", "/") else [])
            pal_k = [0, 1, 3, -2, True, 0.5, 2.0] if op in ("**", "<<", ">>") else pal
        for defined in (False, True, "alias"):
            for operand_kind in ("number", "expr"):
                for va in pal_a:
                    for vk in pal_k:
                        if operand_kind == "number" and isinstance(vk, np.ndarray):
                            continue    # literal operands are hashable numbers
                        if operand_kind == "expr" and op in ("**", "<<") and not isinstance(vk, np.ndarray):
                            vkk = vk
                        else:
                            vkk = vk
                        yield op, defined, operand_kind, va, (va if defined else 4), vkk


def run_inplace(ctx):
    for i, (op, defined, okind, va, vb, vk) in enumerate(inplace_cases()):
        if i % ctx.nshards != ctx.shard:
            continue
        if not defined and okind == "expr" and isinstance(va, (np.ndarray, np.generic)):
            # old value (numpy) (op) expression: numpy owns the operator -> outside the quantifier
            ctx.stats.excluded["inplace: numpy value left of a ref"] += 1
            continue
        f, rep = inplace_case(op, defined, okind, va, vb, vk)
        ctx.stats.case(rep, True, classes=[f"inplace:{op}:{('alias' if defined == 'alias' else 'defined') if defined else 'plain'}:{okind}"])
        if f:
            ctx.fail(f, {"kind": "inplace", "op": op, "defined": defined, "operand": okind,
                         "va": E.enc(va), "vb": E.enc(vb), "vk": E.enc(vk)})
    ctx.stats.exhaustive["in-place operator x state x operand-kind x palette"] = True


# --------------------------------------------------------------------- in-place sequences
SEQ_OPS = ["+", "-", "*", "/", "//", "%", "**"]
seq_numbers = st.one_of(
    st.sampled_from([0.1, 0.2, 0.3, 1.0, 1e16, -1e16, 1, 2, 3, 0.5, -1, 0, 7, 1e-3, 0.7, True]),
    st.integers(-5, 5), st.floats(-4, 4, allow_nan=False).map(lambda v: round(v, 3)))
seq_exponents = st.sampled_from([2, 0.5, -1, 3, 1])


@st.composite
def seq_cases(draw):
    """a start state for d['a'] (plain value or one of several definition shapes) and 1-4 in-place statements"""
    b = E.loc("d", ("i", "b"))
    c = E.loc("d", ("i", "c"))

    def op_and_number():
        op = draw(st.sampled_from(SEQ_OPS))
        return op, E.lit(draw(seq_exponents if op == "**" else seq_numbers))

    shape = draw(st.sampled_from(["plain", "alias", "ref-op-lit", "ref-op-lit", "lit-op-ref", "ref-op-ref", "nested", "neg"]))
    if shape == "plain":
        init = None
    elif shape == "alias":
        init = b
    elif shape == "ref-op-lit":
        op, k = op_and_number()
        init = ["bin", op, b, k]
    elif shape == "lit-op-ref":
        op = draw(st.sampled_from(SEQ_OPS[:-1]))
        init = ["bin", op, E.lit(draw(seq_numbers)), b]
    elif shape == "ref-op-ref":
        init = ["bin", draw(st.sampled_from(SEQ_OPS[:-1])), b, c]
    elif shape == "nested":
        op1, k1 = op_and_number()
        op2, k2 = op_and_number()
        init = ["bin", op2, ["bin", op1, b, k1], k2]
    else:
        init = ["un", "-", b]
    steps = []
    for _ in range(draw(st.integers(1, 4))):
        kind = draw(st.sampled_from(["number", "number", "number", "ref", "expr"]))
        op, k = op_and_number()
        if kind == "number":
            operand = k
        elif kind == "ref":
            op = draw(st.sampled_from(SEQ_OPS[:-1]))
            operand = c
        else:
            op = draw(st.sampled_from(SEQ_OPS[:-1]))
            operand = ["bin", draw(st.sampled_from(["+", "*", "-"])), c, E.lit(draw(seq_numbers))]
        steps.append([op, operand])
    vals = {k: draw(seq_numbers) for k in ("a", "b", "c")}
    later = {k: draw(seq_numbers) for k in ("b", "c")}
    return {"kind": "inplace-seq", "init": init, "steps": steps, "values": vals, "later": later}


def seq_body(ctx, case):
    """`d['a'] op= operand` repeated: after every statement the value is what Python computes from the PREVIOUS
    definition (or value) and the operand, and the definition is exactly  old-definition (op) operand - nothing
    re-associated, folded or dropped; afterwards the definition follows its operands."""
    init, steps = case["init"], case["steps"]
    roots, refs, m = make_world(dict(case["values"]))
    model = dict(case["values"])
    mroots = {"d": model, "F": roots["F"]}
    classes = ["inplace-seq", f"inplace-seq:start:{'plain' if init is None else init[0]}",
               f"inplace-seq:{len(steps)}-statements"]
    rep = {"start": E.render(init) if init else "plain value", "values": {k: E.show(v) for k, v in case["values"].items()},
           "statements": [f"d['a'] {op}= {E.render(o)}" for op, o in steps]}
    cur = init
    if init is not None:
        want = outcome(lambda: E.mirror(init, mroots))
        real = outcome(lambda: refs["d"].__setitem__("a", E.build(init, refs)) or roots["d"]["a"])
        if want[0] == "exc" or real[0] == "exc":
            ctx.stats.case(rep, False, classes=["inplace-seq:start-raises"])
            return None
        model["a"] = want[1]
    lit_lit = 0
    for i, (op, operand) in enumerate(steps):
        if cur is not None:
            new = ["bin", op, cur, operand]
        elif operand[0] == "lit":
            new = None
        else:
            new = ["bin", op, E.lit(model["a"]), operand]
        if new is None:
            want = outcome(lambda: E.BINOPS[op](model["a"], E.dec(operand[1])))
        else:
            want = outcome(lambda: E.mirror(new, mroots))

        def stmt():
            tmp = refs["d"]["a"]
            tmp = E.IOPS[op](tmp, E.build(operand, refs))
            refs["d"]["a"] = tmp
            return roots["d"]["a"]
        real = outcome(stmt)
        bad = compare(real, want)
        if bad:
            ctx.stats.case(rep, True, classes)
            return Failure(f"C04:inplace-seq:{op}", dict(rep, statement=i, diff=bad[1]))
        if want[0] == "exc":
            # a statement that raises ends the case: what a failed assignment leaves behind is not this property's business
            classes.append("inplace-seq:python-raises")
            ctx.stats.case(rep, True, classes)
            return None
        model["a"] = want[1]
        cur = new
        got = refs["d"]["a"]._expr
        if cur is None:
            if got is not None:
                ctx.stats.case(rep, True, classes)
                return Failure(f"C04:inplace-seq:{op}", dict(rep, statement=i, diff=f"plain location got a definition {got!r}"))
        else:
            ub = E.unbuild(got) if got is not None else None
            if ub is None or not E.ast_equal(ub, cur):
                ctx.stats.case(rep, True, classes)
                return Failure(f"C04:inplace-seq:{op}:definition",
                               dict(rep, statement=i, diff=f"definition {E.render(ub) if ub else None} expected {E.render(cur)}"))
    if cur is not None:
        for k, nv in case["later"].items():
            model[k] = nv
            w2 = outcome(lambda: E.mirror(cur, mroots))
            if w2[0] != "ok":
                break

            def assign():
                refs["d"][k] = nv
                return roots["d"]["a"]
            bad = compare(outcome(assign), w2)
            if bad:
                ctx.stats.case(rep, True, classes)
                return Failure("C04:inplace-seq:follow", dict(rep, changed=k, diff=bad[1]))
        if len(steps) >= 2:
            classes.append("inplace-seq:defined-and->=2-statements")
        if any(o[0] == "lit" for _, o in steps[1:]) or (init is not None and init[0] == "bin" and init[3][0] == "lit"):
            classes.append("inplace-seq:number-onto-definition-ending-in-a-number")
    ctx.stats.case(rep, len(steps) >= 2 or cur is not None, classes)
    return None


def run_inplace_seq(ctx):
    drive(ctx, seq_cases(), lambda c: seq_body(ctx, c), ctx.n(600, 6000), salt=5, label="C04 in-place sequences")


# --------------------------------------------------------------------- trees
class O:
    pass


NUM_NAMES = ["a", "b", "c", "f", "g", "h"]


def tree_world(env):
    """env: {'num': {name: value}, 'small': {name: int}, 'key': str}"""
    import xdeps
    o = O()
    o.s = env["num"]["g"]
    o.t = env["num"]["h"]
    e = O()
    e.x = env["num"]["a"]
    e.sub = O()
    e.sub.p = env["num"]["b"]
    d = {
        "a": env["num"]["a"], "b": env["num"]["b"], "c": env["num"]["c"],
        "n0": {"p": env["num"]["f"], "q": env["num"]["g"]},
        "l": [env["num"]["c"], env["num"]["h"], env["num"]["a"]],
        "o": o,
        "s0": env["small"]["s0"], "s1": env["small"]["s1"], "i0": env["small"]["i0"],
        "k0": env["key"],
        "arr": env["arr"],
    }
    m = xdeps.Manager()
    F = dict(E.FUNCS)
    roots = {"d": d, "e": e, "F": F}
    refs = {"d": m.ref(d, "d"), "e": m.ref(e, "e"), "F": m.ref(F, "F")}
    return roots, refs


T_NUM = [E.loc("d", ("i", "a")), E.loc("d", ("i", "b")), E.loc("d", ("i", "c")),
         E.loc("d", ("i", "n0"), ("i", "p")), E.loc("d", ("i", "n0"), ("i", "q")),
         E.loc("d", ("i", "l"), ("i", 0)), E.loc("d", ("i", "l"), ("i", 1)), E.loc("d", ("i", "l"), ("i", 2)),
         E.loc("d", ("i", "o"), ("a", "s")), E.loc("d", ("i", "o"), ("a", "t")),
         E.loc("e", ("a", "x")), E.loc("e", ("a", "sub"), ("a", "p")),
         E.loc("d", ("i", "arr"))]
T_SMALL = [E.loc("d", ("i", "s0")), E.loc("d", ("i", "s1"))]
T_COMP = [(E.loc("d", ("i", "l")), E.loc("d", ("i", "i0"))),
          (E.loc("d", ("i", "n0")), E.loc("d", ("i", "k0")))]
T_FN = {k: E.loc("F", ("i", k)) for k in E.FUNCS}

cont_values = st.one_of(
    G.numbers(bools=True, weird=True, cplx=True),
    st.sampled_from([np.float64(2.5), np.int64(3), np.float32(1.5), np.int64(0), np.float64(0.0)]),
)
arr_values = st.sampled_from([np.array([1.0, -2.0, 0.0]), np.array([3, 0, -1]), np.array([0.5, 2.0, 4.0])])

env_strategy = st.fixed_dictionaries({
    "num": st.fixed_dictionaries({k: cont_values for k in NUM_NAMES}),
    "small": st.fixed_dictionaries({"s0": G.small_ints, "s1": st.integers(0, 64), "i0": st.integers(-1, 3)}),
    "key": st.sampled_from(["p", "q", "zz"]),
    "arr": arr_values,
})

TG = G.TermGen(T_NUM, T_SMALL, T_FN, T_COMP,
               lits=G.numbers(bools=True, weird=True, cplx=True),
               ops=list(E.BINOPS), builtins=list(E.BUILTINS), unary=list(E.UNOPS),
               allow_eq=True, allow_divmod=False)
# a mostly-total profile (real numbers, arithmetic / comparison / builtins / calls) so that
# deep terms are actually evaluated instead of dying in an early TypeError
calm_values = st.one_of(G.numbers(bools=True), G.numbers(), st.sampled_from([np.float64(2.5), 0, 0.0]))
calm_env = st.fixed_dictionaries({
    "num": st.fixed_dictionaries({k: calm_values for k in NUM_NAMES}),
    "small": st.fixed_dictionaries({"s0": G.small_ints, "s1": st.integers(0, 8), "i0": st.integers(0, 2)}),
    "key": st.sampled_from(["p", "q"]),
    "arr": arr_values,
})
TG_CALM = G.TermGen(T_NUM[:-1], T_SMALL, T_FN, T_COMP, lits=G.numbers(bools=True),
                    ops=G.ARITH + G.DIVS + ["**"] + G.CMPS,
                    builtins=["abs", "round", "floor", "ceil", "trunc"], unary=["-", "+"],
                    allow_eq=True)
tree_strategy = st.one_of(
    st.tuples(TG_CALM.strategy(5), calm_env, calm_env),
    st.tuples(TG_CALM.strategy(5), calm_env, calm_env),
    st.tuples(TG.strategy(5), env_strategy, env_strategy))


def enc_env(env):
    return {"num": {k: E.enc(v) for k, v in env["num"].items()}, "small": env["small"],
            "key": env["key"], "arr": E.enc(env["arr"])}


def dec_env(env):
    return {"num": {k: E.dec(v) for k, v in env["num"].items()}, "small": env["small"],
            "key": env["key"], "arr": E.dec(env["arr"])}


def has_zero_div(ast, roots):
    if ast[0] == "bin" and ast[1] in E.NAN_GUARD:
        try:
            v = E.mirror(ast[3], roots)
            if not isinstance(v, np.ndarray) and v == 0:
                return True
        except Exception:
            pass
    return any(has_zero_div(s, roots) for s in E.subterms(ast))


def tree_body(ctx, ast, env1, env2):
    roots, refs = tree_world(env1)
    out1 = outcome(lambda: E.build(ast, refs))
    want_build = None
    if out1[0] == "exc":
        # building applies Python operators to literals only when a sub-term has no
        # ref; the mirror then raises the same way at evaluation
        want = outcome(lambda: E.mirror(ast, roots))
        bad = compare(out1, want) if want[0] == "exc" else ("exception", f"build raised {out1[1]}")
        rep = {"term": E.render(ast), "python": show_out(want)}
        ctx.stats.case(rep, True, classes=["tree:build-raises"])
        if bad:
            return Failure("C04:tree:build", {"term": E.render(ast), "diff": bad[1]})
        return None
    ex = out1[1]
    if not E.is_ref(ex):
        ctx.stats.case({"term": E.render(ast)}, False, classes=["tree:constant"])
        return None
    nt = E.n_ops(ast) >= 2
    classes = ["tree"]
    zero = False
    for phase, env in (("env1", env1), ("env2", env2)):
        if phase == "env2":
            # change the operands in place (raw writes: evaluation is pull, no manager)
            r2, _ = tree_world(env2)
            for k in ("a", "b", "c", "s0", "s1", "i0", "k0", "arr"):
                roots["d"][k] = r2["d"][k]
            roots["d"]["n0"].update(r2["d"]["n0"])
            roots["d"]["l"][:] = r2["d"]["l"]
            roots["d"]["o"].s, roots["d"]["o"].t = r2["d"]["o"].s, r2["d"]["o"].t
            roots["e"].x = r2["e"].x
            roots["e"].sub.p = r2["e"].sub.p
        real = outcome(lambda: ex._get_value())
        want = outcome(lambda: E.mirror(ast, roots))
        if want[0] == "exc":
            nt = True
            classes.append("tree:python-raises:" + want[1])
        if has_zero_div(ast, roots):
            zero = True
        bad = compare(real, want)
        if bad:
            top = ast[0] + ":" + (ast[1] if ast[0] in ("bin", "un", "bi") else "")
            rep = {"term": E.render(ast), "phase": phase, "diff": bad[1]}
            return Failure(f"C04:{culprit(ast, roots, refs)}", rep)
    if zero:
        nt = True
        classes.append("tree:zero-divisor")
    for node in node_classes(ast):
        classes.append("node:" + node)
    rep = {"term": E.render(ast), "env1": {k: E.show(v) for k, v in env1["num"].items()},
           "python": show_out(want)}
    ctx.stats.case(rep, nt, classes=classes)
    return None


def node_classes(ast, out=None):
    if out is None:
        out = set()
    t = ast[0]
    if t == "bin":
        l, r = E.has_ref(ast[2]), E.has_ref(ast[3])
        order = "ref-ref" if l and r else ("ref-lit" if l else "lit-ref")
        out.add(f"bin:{ast[1]}:{order}")
    elif t in ("un", "bi"):
        out.add(f"{t}:{ast[1]}")
    elif t != "lit":
        out.add(t)
    for s in E.subterms(ast):
        node_classes(s, out)
    return out


def culprit(ast, roots, refs):
    """smallest sub-term on which real and mirror disagree -> node label (root cause)"""
    for s in E.subterms(ast):
        if not E.has_ref(s):
            continue
        try:
            real = outcome(lambda: E.build(s, refs)._get_value())
        except Exception:
            continue
        want = outcome(lambda: E.mirror(s, roots))
        if compare(real, want):
            return culprit(s, roots, refs)
    t = ast[0]
    return f"{t}:{ast[1]}" if t in ("bin", "un", "bi") else t


def run_trees(ctx):
    n = ctx.n(1000, 6000)

    def body(case):
        ast, env1, env2 = case
        f = tree_body(ctx, ast, env1, env2)
        if f is not None and f.case is None:
            f.case = {"kind": "tree", "ast": ast, "env": [enc_env(env1), enc_env(env2)]}
        return f

    drive(ctx, tree_strategy, body, n, salt=4, label="C04 trees")


# --------------------------------------------------------------------- entry points
def run(ctx):
    run_grid(ctx)
    run_inplace(ctx)
    run_inplace_seq(ctx)
    run_trees(ctx)


def replay(ctx, case):
    k = case["kind"]
    if k == "term":
        values = {n: E.dec(v) for n, v in case["env"][0].items()}
        real, want = eval_term(case["ast"], values)
        bad = compare(real, want)
        if bad:
            return Failure("C04:replay:" + bad[0], {"term": E.render(case["ast"]), "diff": bad[1]})
        return None
    if k == "inplace":
        f, rep = inplace_case(case["op"], case["defined"], case["operand"],
                              E.dec(case["va"]), E.dec(case["vb"]), E.dec(case["vk"]))
        return f
    if k == "inplace-seq":
        return seq_body(ctx, case)
    if k == "tree":
        return tree_body(ctx, case["ast"], dec_env(case["env"][0]), dec_env(case["env"][1]))
    raise ValueError(k)
