"""C13 - generated setter functions are equivalent to assigning through the manager.

Translation validation by differential execution: for a generated acyclic manager of
expression tasks and a drawn non-empty subset (<= 4) of leaf references,
  world A   f = manager.gen_fun(name, **{arg: ref}) ; f(*values)
  world B   the same values assigned to the same references through the manager, same order
  model     the pull model after the same assignments
must leave identical container contents (A == B == model) unless A raises ZeroDivisionError
(the stated proviso: deferred division by zero gives NaN, the generated source raises).
The source returned by mk_fun must list, after the argument assignments, lines 'target = expr'
whose targets T satisfy  L <= T <= U  (true data-flow set / documented upper bound, as in C02),
each once, in an order that respects every true data-flow edge.
"""
from hypothesis import strategies as st

from vlib import expr as E
from vlib import world as W
from vlib import histgen as H
from vlib.common import Failure, drive
from checks.c01 import xdeps_frame
from checks.c11 import nonfinite_literal, OUTSIDE

RULE = ("history of 3..25 operations (expression tasks over dict / list / attribute containers and a function container), "
        "then 1..4 distinct undefined leaf locations as arguments with drawn names and values; 1..2 calls of the generated "
        "function.  Non-trivial = >= 2 tasks triggered with a true data-flow edge between them, or >= 2 arguments with "
        "dependants; distinct by case digest.  Each case validates one generated program (the function source).")
ASSUMPTIONS = [
    "argument names are identifiers that do not shadow a container label",
    "managers in known-finding class K1 are excluded by construction (C01); math.floor/ceil/trunc (C11 K2) are not used "
    "because the generated source cannot name them",
    "cases in which the generated function raises ZeroDivisionError are discarded and counted (stated proviso)",
]
LEVEL = "exploration"
ARG_NAMES = ["v0", "v1", "x_1", "kq", "value", "k1x", "_a", "a0", "b", "k", "new"]


@st.composite
def cases(draw, opts):
    g = H.Gen(draw, opts)
    for _ in range(draw(st.integers(opts.min_ops, opts.max_ops))):
        if not g.step():
            break
    c = g.case()
    c["raised"] = g.raised
    c["args"] = []
    c["calls"] = []
    if g.raised:
        return c
    m = g.model
    read = set()
    for t in m.tasks():
        read.update(t.reads)
    leaves = [k for k in W.NUM_LEAVES + [W.IDX_LEAF, W.KEY_LEAF] if k not in m.defs]
    hot = [k for k in leaves if any(W.related(k, r) for r in read)]
    n = draw(st.integers(1, 4))
    picked = []
    for _ in range(n):
        pool = hot if hot and draw(st.integers(0, 4)) > 0 else leaves
        k = draw(st.sampled_from(pool))
        if k not in picked:
            picked.append(k)
    names = draw(st.lists(st.sampled_from(ARG_NAMES), min_size=len(picked), max_size=len(picked), unique=True))
    c["args"] = [[nm, W.json_loc(k)] for nm, k in zip(names, picked)]
    for _ in range(draw(st.integers(1, 2))):
        vals = []
        for k in picked:
            if k == W.IDX_LEAF:
                vals.append(E.enc(draw(st.integers(0, 2))))
            elif k == W.KEY_LEAF:
                vals.append(E.enc(draw(st.sampled_from(["p", "q"]))))
            else:
                vals.append(E.enc(draw(H.hist_numbers)))
        c["calls"].append(vals)
    # afterwards some definitions change (removed, replaced by a value or by another expression) - never the arguments
    # themselves - and the function is generated again for the same name and arguments
    redefine = []
    if draw(st.integers(0, 2)) > 0:
        for _ in range(draw(st.integers(1, 3))):
            before = len(g.ops)
            kind = draw(st.sampled_from(["unreg", "unreg", "setv-defined", "sete"]))
            if kind == "unreg":
                op = g.mk_unreg()
            elif kind == "setv-defined":
                cands = [k for k in sorted(m.defs, key=repr)]
                op = {"op": "setv", "loc": W.json_loc(draw(st.sampled_from(cands))), "v": E.enc(draw(H.hist_numbers))} if cands else None
            else:
                op = g.mk_sete()
            if op is None or W.tuple_loc(op["loc"]) in picked:
                continue
            if not g.push(op) or "expect_raise" in g.ops[-1]:
                del g.ops[before:]
                break
            redefine.append(g.ops.pop())
    c["ops"] = list(c["ops"])[:len(c["ops"])]
    c["redefine"] = redefine
    c["calls2"] = []
    if redefine:
        vals = []
        for k in picked:
            if k == W.IDX_LEAF:
                vals.append(E.enc(draw(st.integers(0, 2))))
            elif k == W.KEY_LEAF:
                vals.append(E.enc(draw(st.sampled_from(["p", "q"]))))
            else:
                vals.append(E.enc(draw(H.hist_numbers)))
        c["calls2"] = [vals]
    return c


NONASSOC = [0.1, 0.2, 0.3, 0.7, 1e16, -1e16, 1.0, 3.3, 1e-17, 1.0 / 3.0, 5e-324, 1e308, 7, -3]


def folded_constants_finite(t):
    """a sub-term without any reference is computed by Python before the library sees it; the property speaks of finite
    constants, so a folded product such as 1e16 * 1e308 (= inf, which no source text can name) is not generated"""
    import math
    if not E.has_ref(t):
        try:
            v = E.mirror(t, {})
        except Exception:
            return False
        return not isinstance(v, float) or math.isfinite(v)
    return all(folded_constants_finite(x) for x in E.subterms(t))


@st.composite
def assoc_cases(draw):
    """association probes: definitions that are chains of ONE operator family (+ -, or * /) with a drawn bracketing over
    3..5 operands, called with values for which floating-point arithmetic is not associative - the printed source must
    keep the bracketing of the expression tree"""
    a, b, c = W.NUM_LEAVES[0], W.NUM_LEAVES[1], W.NUM_LEAVES[2]
    x, y = W.NUM_LEAVES[3], W.NUM_LEAVES[4]
    init = draw(H.init_strategy())
    for k in (a, b, c):
        init[E.loc_str(k)] = draw(st.sampled_from(NONASSOC))

    def tree(n, ops, leaves):
        if n == 1:
            if draw(st.integers(0, 4)) == 0:
                return E.lit(draw(st.sampled_from(NONASSOC)))
            return W.ast_loc(draw(st.sampled_from(leaves)))
        k = draw(st.integers(1, n - 1))
        return ["bin", draw(st.sampled_from(ops)), tree(k, ops, leaves), tree(n - k, ops, leaves)]

    def chain(leaves):
        ops = draw(st.sampled_from([["+"], ["+", "-"], ["*"], ["*", "/"], ["+", "-"], ["-"]]))
        for _ in range(8):
            t = tree(draw(st.integers(3, 5)), ops, leaves)
            if (E.has_ref(t[2]) or E.has_ref(t[3])) and folded_constants_finite(t):
                return t
        return ["bin", ops[0], W.ast_loc(leaves[0]), ["bin", ops[0], W.ast_loc(leaves[1]), W.ast_loc(leaves[2])]]
    ops = [{"op": "sete", "loc": W.json_loc(x), "ast": chain([a, b, c])}]
    if draw(st.booleans()):
        ops.append({"op": "sete", "loc": W.json_loc(y), "ast": chain([a, x, c])})
    picked = draw(st.lists(st.sampled_from([a, b, c]), min_size=1, max_size=3, unique=True))
    names = draw(st.lists(st.sampled_from(ARG_NAMES), min_size=len(picked), max_size=len(picked), unique=True))
    calls = [[E.enc(draw(st.sampled_from(NONASSOC))) for _ in picked] for _ in range(draw(st.integers(1, 3)))]
    return {"init": {k: E.enc(v) for k, v in init.items()}, "ops": ops, "excluded": {}, "raised": False,
            "args": [[nm, W.json_loc(k)] for nm, k in zip(names, picked)], "calls": calls, "redefine": [], "calls2": [],
            "probe": "association"}


def exec_case(ctx, case):
    classes = {"genfun"}
    if case.get("probe"):
        classes.add("probe:" + case["probe"])
    rendered = {"history": W.render_case(case), "then_redefined": W.render_case({"ops": case.get("redefine") or []}),
                "arguments": [f"{nm} -> {E.loc_str(W.tuple_loc(l))}" for nm, l in case["args"]],
                "calls": [[E.show(E.dec(v)) for v in vals] for vals in case["calls"]]}
    state = {"nt": False}

    def finish(f, nt=None):
        if not state.get("finished"):
            ctx.stats.case(rendered, state["nt"] if nt is None else nt, sorted(classes))
        state["finished"] = True
        return f
    for why, n in case.get("excluded", {}).items():
        ctx.stats.excluded[why] += n
    if case.get("raised") or not case["args"]:
        classes.add("history-ends-in-exception")
        return finish(None, False)
    init = H.dec_init(case)
    model = W.Model(init)
    A = W.Real(init)
    B = W.Real(init)
    for op in case["ops"]:
        try:
            model.apply(op)
            A.apply(op)
            B.apply(op)
        except Exception:
            classes.add("history-ends-in-exception")
            return finish(None, False)
    if model.k1 or model.k1_now() is not None:
        classes.add("K1-class(replayed)")
        return finish(None, False)
    if any(nonfinite_literal(a) for a in model.defs.values()):
        ctx.stats.excluded[OUTSIDE] += 1
        return finish(None, False)
    def phase(calls, tag):
        """generate the function for the manager as it is now, check its source, run the calls; -> Failure | None | "stop" """
        arg_keys = [W.tuple_loc(l) for _, l in case["args"]]
        kwargs = {nm: A.ref(k) for (nm, _), k in zip(case["args"], arg_keys)}
        where = {"history": rendered["history"], "arguments": rendered["arguments"]}
        classes.add(f"args={len(arg_keys)}")
        # ---- the source
        try:
            src = A.m.mk_fun("setter", **kwargs)
            fun = A.m.gen_fun("setter", **kwargs)
            # a generated function belongs to the manager (and containers) it was generated for: generating further
            # functions afterwards - for a second manager whose containers carry the SAME labels (the twin), or another
            # function on the same manager - must not redirect it
            A.m.gen_fun("other", **{case["args"][0][0]: A.ref(arg_keys[0])})
            B.m.gen_fun("setter", **{nm: B.ref(k) for (nm, _), k in zip(case["args"], arg_keys)})
            classes.add("functions-generated-afterwards(twin manager with same labels, same manager)")
        except Exception as e:
            return finish(Failure(f"C13:gen_fun-raises:{type(e).__name__}:{xdeps_frame(e)}", dict(where, raised=repr(e)[:300])), True)
        where["source"] = src.split("\n")
        lines = src.split("\n")
        want_head = "def setter(" + ",".join(nm for nm, _ in case["args"]) + "):"
        if lines[0] != want_head:
            return finish(Failure("C13:source:header", dict(where, expected=want_head)), True)
        body = lines[1:]
        for (nm, _), k, ln in zip(case["args"], arg_keys, body):
            if ln != f"  {A.ref(k)} = {nm}":
                return finish(Failure("C13:source:argument-assignment", dict(where, line=ln)), True)
        task_lines = body[len(arg_keys):]
        by_text = {}
        for t in model.defs:
            by_text[f"  {A.ref(t)} = "] = t
        listed = []
        for ln in task_lines:
            cands = [p for p in by_text if ln.startswith(p)]
            if not cands:
                return finish(Failure("C13:source:unknown-line", dict(where, line=ln)), True)
            t = by_text[max(cands, key=len)]
            want_line = f"  {A.ref(t)} = {A.m.tasks[A.ref(t)].expr}"
            if ln != want_line:
                return finish(Failure("C13:source:line-is-not-target=expr", dict(where, line=ln, expected=want_line)), True)
            listed.append(("def", t))
        Lset, Uset = set(), set()
        tasks, true_g, doc_g = model.graphs()
        for k in arg_keys:
            L1, U1, _, _, _ = model.trigger_sets(k)
            Lset |= L1
            Uset |= U1
        if len(set(listed)) != len(listed):
            dup = sorted({E.loc_str(t[1]) for t in listed if listed.count(t) > 1})
            return finish(Failure("C13:source:task-listed-twice", dict(where, tasks=dup)), True)
        if not Lset <= set(listed):
            miss = sorted(E.loc_str(t[1]) for t in Lset - set(listed))
            return finish(Failure("C13:source:triggered-task-missing", dict(where, missing=miss)), True)
        if not set(listed) <= Uset:
            extra = sorted(E.loc_str(t[1]) for t in set(listed) - Uset)
            return finish(Failure("C13:source:unrelated-task-listed", dict(where, extra=extra)), True)
        pos = {t: i for i, t in enumerate(listed)}
        for a in listed:
            for b in true_g[a]:
                if b in pos and pos[b] < pos[a]:
                    return finish(Failure("C13:source:order-violates-dependency",
                                          dict(where, producer=E.loc_str(a[1]), consumer=E.loc_str(b[1]))), True)
        if len(Lset) >= 2 and any(true_g[a] & Lset for a in Lset):
            state["nt"] = True
        if sum(1 for k in arg_keys if model.trigger_sets(k)[0]) >= 2:
            state["nt"] = True
        classes.add("triggered>=2" if len(Lset) >= 2 else f"triggered={len(Lset)}")
        if Lset != Uset:
            classes.add("sibling-trigger(L<U)")
        # ---- the executions
        for ci, vals in enumerate(calls):
            values = [E.dec(v) for v in vals]
            wh = dict(where, call=ci, phase=tag, values=[E.show(v) for v in values])
            aexc = None
            try:
                fun(*values)
            except ZeroDivisionError:
                ctx.stats.excluded["generated function raises ZeroDivisionError (stated proviso)"] += 1
                classes.add("zero-division-proviso")
                return finish(None)
            except Exception as e:
                aexc = e
            mexc = bexc = None
            for k, v in zip(arg_keys, values):
                op = {"op": "setv", "loc": W.json_loc(k), "v": E.enc(v)}
                try:
                    model.apply(op)
                except Exception as e:
                    mexc = e
                try:
                    B.apply(op)
                except Exception as e:
                    bexc = e
                if mexc or bexc:
                    break
            if mexc is not None or bexc is not None:
                # The manager path assigns the arguments one at a time and recomputes after each: Python may raise on an
                # INTERMEDIATE valuation the generated function never visits (it assigns all arguments first), e.g.
                # round(nan) after a deferred division by zero.  Not an equivalence claim of the property: counted.
                classes.add("manager-path-raises-on-intermediate-valuation")
                ctx.stats.excluded["sequential assignment raises on an intermediate valuation"] += 1
                return finish(None)
            if aexc is not None:
                return finish(Failure(f"C13:function-raises:{type(aexc).__name__}", dict(wh, raised=repr(aexc)[:300])), True)
            d = W.diff_roots(A.roots, B.roots)
            if d is not None:
                return finish(Failure("C13:function-and-manager-disagree",
                                      dict(wh, location=d[0], after_function=d[1], after_assignment=d[2])), True)
            d = W.diff_roots(A.roots, model.roots)
            if d is not None:
                return finish(Failure("C13:function-disagrees-with-model",
                                      dict(wh, location=d[0], after_function=d[1], expected=d[2])), True)
            # the manager of world A must be untouched by running the function
            if sorted(map(tuple, A.m.dump())) != sorted(map(tuple, B.m.dump())):
                return finish(Failure("C13:definitions-changed-by-function", wh), True)
        return None

    state["stop"] = False
    f = phase(case["calls"], "initial")
    if f is not None or state.get("finished"):
        return f
    # ---- the definitions change, the function is generated AGAIN for the same name and arguments
    redefine = case.get("redefine") or []
    if redefine:
        classes.add("regenerated-after-definition-change")
        for op in redefine:
            try:
                model.apply(op)
                A.apply(op)
                B.apply(op)
            except Exception:
                classes.add("redefinition-raises")
                return finish(None)
        if model.k1 or model.k1_now() is not None or any(nonfinite_literal(a) for a in model.defs.values()):
            return finish(None)
        f = phase(case.get("calls2") or case["calls"][:1], "after-redefinition")
        if f is not None or state.get("finished"):
            return f
    return finish(None)


def run(ctx):
    n = ctx.n(300, 3000)
    opts = H.Opts(ftasks=False, knobs=False, maint=False, max_ops=25, math_builtins=False, eq=True, fresh=True, divmod_item=True)
    drive(ctx, cases(opts), lambda c: exec_case(ctx, c), n, salt=1, label="C13")
    flat = H.Opts(ftasks=False, knobs=False, maint=False, max_ops=20, math_builtins=False, nested=False, setc=False)
    drive(ctx, cases(flat), lambda c: exec_case(ctx, c), max(30, n // 4), salt=2, label="C13 flat")
    drive(ctx, assoc_cases(), lambda c: exec_case(ctx, c), max(30, n // 4), salt=3, label="C13 association probes")
    ctx.stats.extra["programs"] = ctx.stats.evaluations


def replay(ctx, case):
    return exec_case(ctx, case)
