"""C15 - the optimizer log is truthful: reload reproduces a row, steps never end worse.

A generated script drives ONE Optimize object (generated deterministic problem): step(n, take_best,
broyden[, temporary disable arguments]), solve() (including failing solves, restore on / off), reload(row)
and reload(tag=...), tag(name), enable / disable of knobs and targets, clear_log().
after every step(take_best=True) that returns normally
    either the user function (re-evaluated by the harness at the container's knobs) is within every active
    tolerance, or the container's knob vector is that of a minimum-penalty row among those logged during
    the call AND the independently computed penalty there is <= the independently computed penalty at the
    point where the call started;
at the end, for every row i of the log
    reload(i) puts knobs[i] into the container (bit-exact for unit weights, 4 ulp otherwise) and the row's
    masks into the active flags; an independent evaluation (f - target) * weight, masked by the row's
    target mask, Euclidean norm, reproduces penalty[i] (rtol 1e-12), and f reproduces targets[i].
"""
import numpy as np
from hypothesis import strategies as st

from vlib import optfam as OF
from vlib import optgen as OG
from vlib.common import Failure, drive

RULE = ("problem + script of 2..10 calls; non-trivial = the log contains a non-monotone step (penalty increase between "
        "consecutive Jacobian rows) or a take_best reload or a failing solve; all rows of the final log are reloaded and "
        "re-evaluated.  Distinct by case digest; evaluations also counts reloaded rows.")
ASSUMPTIONS = [
    "deterministic user functions without faults (a fault inside tag()/reload() is outside this property's quantifier)",
    "the script stops at the first call that raises anything but solve()'s own failure; rows logged so far are still checked",
    "ties in penalty: the container may hold any row of minimum penalty",
]
REQUIRED_CLASSES = ["log()-looked-at-between-calls", "rows-with-inactive-knob-reloaded", "call:step", "call:solve", "call:reload-row", "call:reload-tag", "call:tag", "call:disable", "call:enable",
                    "call:clear_log", "log:penalty-increase", "log:take_best-reload", "solve:failed", "solve:succeeded",
                    "rows-reloaded", "log:take_best-reload-after-an-earlier-solve-succeeded"]


@st.composite
def cases(draw):
    spec = draw(OG.problems(max_step=draw(st.sampled_from(["none", "mixed"])),
                            families=("quad", "trig", "trig", "lin"),
                            target_modes=["reachable", "reachable", "outside", "far", "arbitrary", "on-limit"]))
    spec["disabled_vary"] = []
    spec["disabled_targets"] = []
    n, m = spec["n"], spec["m"]
    script = []
    tags = []
    for _ in range(draw(st.integers(2, 10))):
        k = draw(st.sampled_from(["step"] * 5 + ["solve", "solve", "reload-row", "reload-row", "reload-tag", "tag", "tag",
                                  "disable", "enable", "clear_log", "episode", "episode", "episode-solved", "episode-solved"]))
        if k == "episode-solved" and m >= 2:
            # a point within tolerance is FOUND for a sub-problem (one target disabled, solve), then the problem changes
            # (target enabled again, optionally back to an old row) and further steps are taken: whatever the optimizer
            # remembers of the earlier success must not switch off take_best for the new problem
            idx = draw(st.integers(0, m - 1))
            script.append({"op": "disable", "what": "target", "idx": idx, "by": "id"})
            script.append({"op": "solve", "n": None, "take_best": True, "broyden": False})
            script.append({"op": "enable", "what": "target", "idx": idx, "by": "id"})
            if draw(st.booleans()):
                script.append({"op": "reload-row", "row": draw(st.integers(0, 3))})
            for _ in range(draw(st.integers(1, 3))):
                script.append({"op": "step", "n": draw(st.integers(1, 3)), "take_best": True, "broyden": False})
            continue
        if k == "episode-solved":
            k = "step"
        if k == "episode":
            # rows logged while a knob (or target) is inactive, after which it is enabled again and moves on:
            # reloading such a row later must bring back the inactive knob's value and the flags
            what = draw(st.sampled_from(["vary", "vary", "target"]))
            idx = draw(st.integers(0, (n if what == "vary" else m) - 1))
            by = draw(st.sampled_from(["id", "tag"]))
            script.append({"op": "disable", "what": what, "idx": idx, "by": by})
            script.append({"op": "step", "n": draw(st.integers(1, 2)), "take_best": draw(st.booleans()), "broyden": False})
            script.append({"op": "enable", "what": what, "idx": idx, "by": by})
            script.append({"op": "step", "n": draw(st.integers(1, 3)), "take_best": draw(st.booleans()), "broyden": False})
            continue
        if k == "step":
            script.append({"op": "step", "n": draw(st.integers(1, 4)), "take_best": draw(st.sampled_from([True, True, True, False])),
                           "broyden": draw(st.sampled_from([False, False, True, 2]))})
        elif k == "solve":
            script.append({"op": "solve", "n": draw(st.sampled_from([None, 1, 2, 3])),
                           "take_best": draw(st.sampled_from([True, True, False])),
                           "broyden": draw(st.sampled_from([False, False, True]))})
        elif k == "reload-row":
            script.append({"op": "reload-row", "row": draw(st.integers(0, 60))})
        elif k == "reload-tag":
            if tags:
                script.append({"op": "reload-tag", "tag": draw(st.sampled_from(tags))})
        elif k == "tag":
            t = draw(st.sampled_from(["A", "B", "mark"]))
            tags.append(t)
            script.append({"op": "tag", "tag": t})
        elif k in ("disable", "enable"):
            what = draw(st.sampled_from(["vary", "target"]))
            idx = draw(st.integers(0, (n if what == "vary" else m) - 1))
            script.append({"op": k, "what": what, "idx": idx, "by": draw(st.sampled_from(["id", "tag"]))})
        else:
            script.append({"op": "clear_log"})
            tags = []
    # after which calls the user LOOKS at the log table (a table handed out earlier must not stand in for the current log:
    # looking, clearing, growing again to the same length, looking again)
    looks = draw(st.lists(st.booleans(), min_size=len(script), max_size=len(script)))
    for c, lk in zip(script, looks):
        c["look"] = lk
    # and an episode made for it: look, clear_log, the same call again, look
    if draw(st.integers(0, 3)) == 0:
        again = {"op": "step", "n": draw(st.integers(1, 2)), "take_best": False, "broyden": False, "look": True}
        script.insert(0, dict(again))
        script.insert(1, {"op": "clear_log", "look": False})
        script.insert(2, dict(again))
    spec["script"] = script
    spec["kind"] = "script"
    return spec


def penalty_at(b, knobs, tmask):
    spec = b.spec
    res = (b.f(np.asarray(knobs, float)) - np.array(spec["targets"], float)) * np.array(spec["tweights"], float)
    res = np.where(np.asarray(tmask, bool), res, 0.0)
    return float(np.sqrt(np.dot(res, res)))


def mask_of(s):
    return [c == "y" for c in s]


def within_tol(b, knobs, tmask):
    res = b.f(np.asarray(knobs, float)) - np.array(b.spec["targets"], float)
    return all((not tmask[i]) or abs(res[i]) < b.spec["tols"][i] for i in range(b.spec["m"]))


def exec_case(ctx, spec):
    n, m = spec["n"], spec["m"]
    classes = {"script"}
    rendered = dict(OG.render(spec), script=spec["script"])
    state = {"nt": False}

    def finish(f):
        ctx.stats.case(rendered, state["nt"], sorted(classes))
        return f
    try:
        b = OF.build(spec)
    except Exception as e:
        classes.add("construction-raises:" + type(e).__name__)
        return finish(None)
    opt = b.opt
    wv = np.array(spec["vweights"])
    for ci, call in enumerate(spec["script"]):
        op = call["op"]
        where = dict(rendered, call=ci, op=call)
        L0 = len(opt._log["penalty"])
        try:
            if op == "step":
                classes.add("call:step")
                start_knobs = OF.knob_vector(b)
                opt.step(call["n"], take_best=call["take_best"], broyden=call["broyden"], rcond=spec.get("rcond"),
                         sing_val_cutoff=spec.get("sing_val_cutoff"))
                log = opt._log
                L = len(log["penalty"])
                i_start = L0          # the row step() adds for its starting point
                reloaded = log["tag"][-1] == "take_best"
                if reloaded:
                    classes.add("log:take_best-reload")
                    if "solve:succeeded" in classes:
                        classes.add("log:take_best-reload-after-an-earlier-solve-succeeded")
                    state["nt"] = True
                rows = list(range(i_start, L - 1 if reloaded else L))
                pens = [log["penalty"][r] for r in rows]
                for a, c in zip(pens[1:], pens[2:]):
                    if c > a:
                        classes.add("log:penalty-increase")
                        state["nt"] = True
                if len(pens) >= 2 and pens[1] > pens[0]:
                    classes.add("log:penalty-increase")
                    state["nt"] = True
                if call["take_best"]:
                    tmask = mask_of(log["target_active"][i_start])
                    knobs = OF.knob_vector(b)
                    if not within_tol(b, knobs, tmask):
                        pmin = min(pens)
                        best = [r for r in rows if log["penalty"][r] == pmin]
                        if not any(np.array_equal(knobs, np.array(log["knobs"][r], dtype=float)) for r in best):
                            return finish(Failure("C15:take_best-not-on-minimum-penalty-row",
                                                  dict(where, container=knobs.tolist(), penalties=pens,
                                                       rows=[list(map(float, log["knobs"][r])) for r in rows])))
                        p_end = penalty_at(b, knobs, tmask)
                        p_start = penalty_at(b, start_knobs, tmask)
                        slack = 0.0
                        for kv in (knobs, start_knobs):
                            dfk = 2.0 * (np.abs(b.jac(kv)) @ OF.ulp_tol(kv, wv))
                            slack += float(np.linalg.norm(dfk * np.array(spec["tweights"])))
                        if p_end > p_start * (1 + 1e-12) + slack + 1e-300:
                            return finish(Failure("C15:step-ends-at-higher-penalty",
                                                  dict(where, start_penalty=p_start, end_penalty=p_end, penalties=pens)))
            elif op == "solve":
                classes.add("call:solve")
                try:
                    if call["n"] is None:
                        opt.solve(take_best=call["take_best"], broyden=call["broyden"])
                    else:
                        opt.solve(n_steps=call["n"], take_best=call["take_best"], broyden=call["broyden"])
                    classes.add("solve:succeeded")
                except RuntimeError:
                    classes.add("solve:failed")
                    state["nt"] = True
            elif op == "reload-row":
                classes.add("call:reload-row")
                opt.reload(iteration=call["row"] % L0)
            elif op == "reload-tag":
                classes.add("call:reload-tag")
                if call["tag"] in opt._log["tag"]:
                    cand = [i for i, t in enumerate(opt._log["tag"]) if t == call["tag"]]
                    opt.reload(tag=call["tag"])
                    now = OF.knob_vector(b)
                    if not any(np.array_equal(now, np.array(opt._log["knobs"][i], dtype=float)) for i in cand):
                        return finish(Failure("C15:reload-by-tag-loads-untagged-row", dict(where, tagged_rows=cand)))
            elif op == "tag":
                classes.add("call:tag")
                opt.tag(call["tag"])
                if opt._log["tag"][-1] != call["tag"] or not np.array_equal(
                        np.array(opt._log["knobs"][-1], dtype=float), OF.knob_vector(b)):
                    return finish(Failure("C15:tag-row-is-not-the-current-point", where))
            elif op in ("disable", "enable"):
                classes.add("call:" + op)
                lst = opt.vary if call["what"] == "vary" else opt.targets
                act = [bool(x.active) for x in lst]
                if op == "disable" and sum(act) - (1 if act[call["idx"]] else 0) < 1:
                    continue        # never disable the last active knob / target
                key = call["idx"] if call["by"] == "id" else (("v" if call["what"] == "vary" else "t") + str(call["idx"]))
                getattr(opt, op)(**{call["what"]: [key]})
            elif op == "clear_log":
                classes.add("call:clear_log")
                opt.clear_log()
        except Exception as e:
            classes.add(f"call-raises:{op}:{type(e).__name__}")
            break
        # every table the log() API builds must be consistent
        lens = {k: len(v) for k, v in opt._log.items()}
        if len(set(lens.values())) != 1:
            return finish(Failure("C15:log-columns-have-different-lengths", dict(where, lengths=lens)))
        # the table log() hands out is looked at after drawn calls (a user looks at it between calls) and must show the
        # rows recorded now - also after the log was cleared and has grown again
        if not call.get("look", True):
            continue
        try:
            lt = opt.log()
            ok = np.array_equal(np.asarray(lt["vary"], dtype=float).reshape(len(opt._log["penalty"]), -1),
                                np.array(opt._log["knobs"], dtype=float).reshape(len(opt._log["penalty"]), -1)) and \
                np.array_equal(np.asarray(lt["penalty"], dtype=float), np.array(opt._log["penalty"], dtype=float)) and \
                list(lt["vary_active"]) == list(opt._log["vary_active"]) and list(lt["target_active"]) == list(opt._log["target_active"]) and \
                len(lt) == len(opt._log["penalty"])
        except Exception as e:
            return finish(Failure(f"C15:log()-raises:{type(e).__name__}", dict(where, raised=repr(e)[:200])))
        if not ok:
            return finish(Failure("C15:log()-table-differs-from-recorded-rows", dict(where, after_call=ci)))
        classes.add("log()-looked-at-between-calls")
    # ---- every row reproduces
    try:
        log_t = opt.log()
    except Exception as e:
        return finish(Failure(f"C15:log()-raises:{type(e).__name__}", dict(rendered, raised=repr(e)[:200])))
    rows_knobs = np.array(opt._log["knobs"], dtype=float)
    pen = list(opt._log["penalty"])
    vact = list(opt._log["vary_active"])
    tact = list(opt._log["target_active"])
    tvals = [np.array(t, dtype=float) for t in opt._log["targets"]]
    if not np.array_equal(np.asarray(log_t["vary"], dtype=float), rows_knobs) or \
            not np.array_equal(np.asarray(log_t["penalty"], dtype=float), np.array(pen, dtype=float)):
        return finish(Failure("C15:log()-table-differs-from-recorded-rows", rendered))
    nrows = len(pen)
    classes.add("rows-reloaded")
    for i in range(nrows):
        ctx.stats.evaluations += 1
        where = dict(rendered, row=i, rows=nrows)
        try:
            opt.reload(iteration=i)
        except Exception as e:
            return finish(Failure(f"C15:reload-raises:{type(e).__name__}", dict(where, raised=repr(e)[:200])))
        if "n" in vact[i] and i + 1 < nrows and not np.array_equal(rows_knobs[i], rows_knobs[-1]):
            classes.add("rows-with-inactive-knob-reloaded")
        got = OF.knob_vector(b)
        tol = OF.ulp_tol(rows_knobs[i], wv)
        if np.any(np.abs(got - rows_knobs[i]) > tol):
            return finish(Failure("C15:reload-does-not-reproduce-knobs",
                                  dict(where, container=got.tolist(), logged=rows_knobs[i].tolist())))
        va = "".join("y" if v.active else "n" for v in opt.vary)
        ta = "".join("y" if t.active else "n" for t in opt.targets)
        if va != vact[i] or ta != tact[i]:
            return finish(Failure("C15:reload-does-not-reproduce-active-flags",
                                  dict(where, vary_active=va, target_active=ta, logged=[vact[i], tact[i]])))
        # a knob with weight w is written as (k / w) * w, i.e. the row's penalty / targets were computed up to 4 ulp
        # away from the logged knob value: first-order bound through the analytic Jacobian (zero for unit weights)
        dk = OF.ulp_tol(rows_knobs[i], wv)
        df = 2.0 * (np.abs(b.jac(rows_knobs[i])) @ dk)
        p = penalty_at(b, rows_knobs[i], mask_of(tact[i]))
        slack = float(np.linalg.norm(np.where(mask_of(tact[i]), df * np.array(spec["tweights"]), 0.0)))
        if not abs(p - pen[i]) <= 1e-12 * max(abs(p), abs(pen[i])) + slack + 1e-300:
            return finish(Failure("C15:logged-penalty-not-reproducible",
                                  dict(where, logged=float(pen[i]), recomputed=p, knobs=rows_knobs[i].tolist(),
                                       target_active=tact[i], allowed_by_weight_rounding=slack)))
        fv = b.f(rows_knobs[i])
        if np.any(np.abs(fv - tvals[i]) > 1e-13 * np.abs(fv) + df + 1e-300):
            return finish(Failure("C15:logged-target-values-not-reproducible",
                                  dict(where, logged=tvals[i].tolist(), recomputed=fv.tolist(),
                                       allowed_by_weight_rounding=df.tolist())))
    return finish(None)


def run(ctx):
    drive(ctx, cases(), lambda c: exec_case(ctx, c), ctx.n(600, 4000), salt=1, label="C15")


def replay(ctx, case):
    return exec_case(ctx, case)
