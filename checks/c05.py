"""C05 - reported dependencies contain every location an expression reads.

enumeration  every node class found by walking BaseRef.__subclasses__() x every operand slot
             x {bare flat ref, bare nested ref, ref nested under 1..3 nodes, computed-key item,
             top-level container ref}; other slots literals
trees        Hypothesis-generated terms over the full node set
Oracle       structural: _get_dependencies() is a set equal to the AST-derived set (both
             inclusions); behavioural (metamorphic): changing a location through its ref
             changes the mirrored value  =>  the location (or, for computed keys, its owner
             chain) is reported and a task defined by the expression has updated its target.
"""
import itertools

from hypothesis import strategies as st

from vlib import expr as E
from vlib import gen as G
from vlib.common import Failure, digest, drive

RULE = ("enumeration: concrete node classes (introspected) x operand slots x 7 filler shapes, remaining slots "
        "literals; trees: generated terms depth<=4 over binary/unary/builtin(with params)/call(args, kwargs)/"
        "item(computed key)/eq nodes.  Non-trivial = probed slot is not the first operand, or the ref is nested "
        ">=2 deep, or the key is computed, or (trees) >=2 operator nodes; distinct by term digest.")
ASSUMPTIONS = [
    "computed attribute names (AttrRef with a ref key) cannot be built through the API and are not generated",
    "for a computed key the behavioural clause requires the owner chain of the changed location to meet the "
    "reported set (the manager's trigger rule), not the location itself",
]
ENGINE = "enumeration + hypothesis"


class Obj:
    pass


def world():
    import xdeps
    o = Obj()
    o.s = 2.0
    o1, o2 = Obj(), Obj()
    o1.s, o2.s = 8.5, -4.5
    d = {"a": 3.0, "b": 5.0, "c": -2.0, "z": 7.0, "t": 0.0, "n0": {"p": 1.5, "q": 4.0}, "p": 12.5, "q": -6.5,
         "l": [1.0, 2.0, 3.0], "o": o, "i0": 1, "k0": "p", "s0": 2,
         # containers of containers: a computed key in the MIDDLE of an access chain
         "tab": [{"p": 10.0, "q": 11.0}, {"p": 20.0, "q": 21.0}, {"p": 30.0, "q": 31.0}],
         "objs": {"p": o1, "q": o2}}
    F = dict(E.FUNCS)
    m = xdeps.Manager()
    roots = {"d": d, "F": F}
    refs = {"d": m.ref(d, "d"), "F": m.ref(F, "F")}
    return roots, refs, m


A = E.loc("d", ("i", "a"))
B = E.loc("d", ("i", "b"))
Z = E.loc("d", ("i", "z"))
NP = E.loc("d", ("i", "n0"), ("i", "p"))
OS = E.loc("d", ("i", "o"), ("a", "s"))
L1 = E.loc("d", ("i", "l"), ("i", 1))
I0 = E.loc("d", ("i", "i0"))
K0 = E.loc("d", ("i", "k0"))
S0 = E.loc("d", ("i", "s0"))
LC = E.loc("d", ("i", "l"))
N0 = E.loc("d", ("i", "n0"))
DROOT = ["loc", "d", []]
TAB = E.loc("d", ("i", "tab"))
OBJS = E.loc("d", ("i", "objs"))
CHAIN_ITEM = ["item", ["item", TAB, I0], E.lit("p")]              # d['tab'][d['i0']]['p']
CHAIN_ATTR = ["cattr", ["item", OBJS, K0], E.lit("s")]            # d['objs'][d['k0']].s
CHAIN_EXPR = ["item", ["item", TAB, ["bin", "-", S0, I0]], E.lit("q")]   # d['tab'][d['s0'] - d['i0']]['q']
LEAVES = [E.loc("d", ("i", "p")), E.loc("d", ("i", "q")), E.loc("d", ("i", "tab"), ("i", 1), ("i", "p")), E.loc("d", ("i", "tab"), ("i", 2), ("i", "p")),
          E.loc("d", ("i", "tab"), ("i", 1), ("i", "q")), E.loc("d", ("i", "objs"), ("i", "p"), ("a", "s")),
          E.loc("d", ("i", "objs"), ("i", "q"), ("a", "s")), A, B, E.loc("d", ("i", "c")), Z, NP, E.loc("d", ("i", "n0"), ("i", "q")), OS,
          E.loc("d", ("i", "l"), ("i", 0)), L1, E.loc("d", ("i", "l"), ("i", 2)), I0, K0, S0]

FILLERS = {
    "bare-flat": A,
    "bare-nested": NP,
    "bare-attr": OS,
    "nested-1": ["un", "-", A],
    "nested-2": ["bi", "abs", ["bin", "*", E.lit(2), NP], []],
    "nested-3": ["bin", "+", E.lit(1), ["un", "-", ["call", E.loc("F", ("i", "sq")), [L1], []]]],
    "computed-item": ["item", LC, I0],
    "computed-item-on-root": ["item", DROOT, K0],                  # d[d['k0']]: computed key on a top-level container
    "computed-mid-chain(item)": CHAIN_ITEM,
    "computed-mid-chain(attr)": CHAIN_ATTR,
    "computed-mid-chain(expr key)": CHAIN_EXPR,
    "container": DROOT,
}
NEW_VALUES = {"num": 11.5, "i0": 2, "k0": "q", "s0": 3}


def slot_table():
    """class name -> list of (slot name, builder(filler) -> AST)"""
    t = {}
    for cn, op in E.CLASS_TO_BIN.items():
        small = op in ("**", "<<", ">>")
        other = E.lit(2)
        t[cn] = [("lhs", lambda f, op=op, other=other: ["bin", op, f, other]),
                 ("rhs", lambda f, op=op: ["bin", op, E.lit(3), f]),
                 ("rhs(ref-ref)", lambda f, op=op: ["bin", op, Z, f])]
    t["EqExpr"] = [("lhs", lambda f: ["eq", f, E.lit(2)]), ("rhs", lambda f: ["eq", Z, f])]
    t["NeExpr"] = [("lhs", lambda f: ["neq", f, E.lit(2)]), ("rhs", lambda f: ["neq", Z, f])]
    for cn, op in E.CLASS_TO_UN.items():
        t[cn] = [("arg", lambda f, op=op: ["un", op, f])]
    t["BuiltinRef"] = [
        ("arg(abs)", lambda f: ["bi", "abs", f, []]),
        ("arg(round)", lambda f: ["bi", "round", f, []]),
        ("arg(round,n)", lambda f: ["bi", "round", f, [E.lit(1)]]),
        ("param(round ndigits)", lambda f: ["bi", "round", Z, [f]]),
        ("arg(divmod)", lambda f: ["bi", "divmod", f, [E.lit(2)]]),
        ("param(divmod divisor)", lambda f: ["bi", "divmod", Z, [f]]),
        ("arg(floor)", lambda f: ["bi", "floor", f, []]),
        ("arg(ceil)", lambda f: ["bi", "ceil", f, []]),
        ("arg(trunc)", lambda f: ["bi", "trunc", f, []]),
    ]
    add2 = E.loc("F", ("i", "add2"))
    scale = E.loc("F", ("i", "scale"))
    t["CallRef"] = [
        ("func", lambda f: ["call", add2, [Z], []]),      # the function entry itself is a location
        ("args[0]", lambda f: ["call", add2, [f], []]),
        ("args[1]", lambda f: ["call", add2, [E.lit(1), f], []]),
        ("kwargs", lambda f: ["call", add2, [E.lit(1)], [["y", f]]]),
        ("kwargs-only", lambda f: ["call", scale, [], [["x", E.lit(2)], ["k", f]]]),
    ]
    t["ItemRef"] = [("owner", lambda f: ["item", LC, I0]),
                    ("key", lambda f: ["item", LC, f]),
                    ("owner(const key)", lambda f: L1)]
    t["AttrRef"] = [("owner", lambda f: OS)]
    t["Ref"] = [("container", lambda f: DROOT)]
    t["ObjectAttrRef"] = [("container", lambda f: DROOT)]
    t["LiteralExpr"] = []
    return t


ABSTRACT = {"BaseRef", "MutableRef", "BinOpExpr", "UnaryOpExpr"}


def discover():
    from xdeps import refs as R
    out = []
    todo = [R.BaseRef]
    while todo:
        c = todo.pop()
        for s in c.__subclasses__():
            if s.__module__.endswith("refs") and s.__name__ not in out:
                out.append(s.__name__)
                todo.append(s)
    return sorted(out)


K5_SIG = "C05:K5-computed-key-on-top-level-container"


def root_computed(ast):
    """does the term select a member of a TOP-LEVEL container with a computed key (d[d['k0']])?"""
    if ast[0] == "item" and ast[1][0] == "loc" and not ast[1][2] and E.has_ref(ast[2]):
        return True
    return any(root_computed(s) for s in E.subterms(ast))


def check_term(ast, label, behavioural=True, k5=False):
    """-> (Failure|None, nontrivial_info)"""
    roots, refs, m = world()
    try:
        ex = E.build(ast, refs)
    except Exception as e:
        return None, "build-raises"
    if not E.is_ref(ex):
        return None, "constant"
    try:
        rep = ex._get_dependencies()
    except Exception as e:
        return Failure(f"C05:{label}:raises", {"term": E.render(ast), "raised": repr(e)[:200]}), "x"
    if rep is None or not isinstance(rep, set):
        return Failure(f"C05:not-a-set:{culprit(ast, refs)}",
                       {"term": E.render(ast), "returned": repr(rep)}), "x"
    want = E.deps(ast)
    try:
        got = {E.dep_of_ref(r) for r in rep}
    except Exception as e:
        return Failure(f"C05:{label}:unreadable-dependency", {"term": E.render(ast), "raised": repr(e)[:200]}), "x"
    if got != want:
        missing = sorted(map(show_dep, want - got))
        extra = sorted(map(show_dep, got - want))
        return Failure(f"C05:deps-wrong:{culprit(ast, refs)}",
                       {"term": E.render(ast), "missing": missing, "extra": extra}), "x"
    if not behavioural:
        return None, "structural"
    if root_computed(ast) and not k5:
        # known finding K5: the owner of such an access is the top-level container, which is never a dependency, so
        # assigning the selected member triggers nothing.  The structural clause above still applies.
        return None, "structural-only(K5 class)"
    # ---- behavioural clause
    try:
        v0 = ("ok", E.mirror(ast, roots))
    except Exception as e:
        v0 = ("exc", type(e).__name__)
    task_ok = True
    try:
        refs["d"]["t"] = ex
    except Exception:
        task_ok = False     # evaluating raises: no task to watch
    reads = E.reads(ast)
    for leaf in LEAVES:
        key = E.loc_key(leaf)
        name = key[1][-1][1]
        newv = NEW_VALUES.get(name, NEW_VALUES["num"])
        old = E.get_loc(key, roots)
        try:
            E.build_loc(leaf, refs)._manager.set_value(E.build_loc(leaf, refs), newv)
        except Exception:
            # a dependant raised while being recomputed: restore and move on
            E.set_loc(key, roots, old)
            continue
        try:
            v1 = ("ok", E.mirror(ast, roots))
        except Exception as e:
            v1 = ("exc", type(e).__name__)
        changed = (v0[0] != v1[0]) or (v0[0] == "ok" and not E.same(v0[1], v1[1]))
        if changed:
            chain = {("loc",) + p for p in E.prefixes(key)}
            if key in reads:
                ok = (("loc",) + key) in got
            else:
                ok = bool(chain & got)
            if not ok:
                if k5:
                    return Failure(K5_SIG, {"term": E.render(ast), "location": E.loc_str(key),
                                            "reported": sorted(map(show_dep, got))}), "x"
                return Failure(f"C05:value-follows-unreported-location:{culprit(ast, refs)}",
                               {"term": E.render(ast), "location": E.loc_str(key),
                                "reported": sorted(map(show_dep, got))}), "x"
            if task_ok and v1[0] == "ok":
                tv = roots["d"]["t"]
                if not E.same(tv, v1[1]):
                    return Failure(f"C05:dependant-not-recomputed:{culprit(ast, refs)}",
                                   {"term": E.render(ast), "changed": E.loc_str(key),
                                    "target_holds": E.show(tv), "expected": E.show(v1[1])}), "x"
        # restore through the manager so the watched task stays in sync
        try:
            E.build_loc(leaf, refs)._manager.set_value(E.build_loc(leaf, refs), old)
        except Exception:
            E.set_loc(key, roots, old)
        v0 = v0
    return None, "full"


def show_dep(d):
    if d[0] == "loc":
        return E.loc_str((d[1], d[2]))
    return "term:" + E.render(uncanon(d[1]))


def uncanon(t):
    if isinstance(t, tuple):
        return [uncanon(x) for x in t]
    return t


def culprit(ast, refs):
    """class name of the smallest sub-term whose reported set is wrong"""
    for s in E.subterms(ast):
        if not E.has_ref(s):
            continue
        try:
            ex = E.build(s, refs)
            rep = ex._get_dependencies()
            bad = rep is None or not isinstance(rep, set) or {E.dep_of_ref(r) for r in rep} != E.deps(s)
        except Exception:
            bad = True
        if bad:
            return culprit(s, refs)
    try:
        return type(E.build(ast, refs)).__name__
    except Exception:
        return ast[0]


# ---------------------------------------------------------------------------------------------------------------
# shared node objects: the reported set of a node must not depend on who asked first, in which accumulator
def check_shared(ast, root_first):
    """Builds the term with ONE object per distinct sub-term (memoised construction), interrogates the root and then
    every sub-node object itself (or the other way round), then reuses the node objects inside two new parents.  Every
    answer must be exactly the AST-derived set of that node: an answer that depends on an earlier query (a memo filled
    from the caller's accumulator, a cache keyed too coarsely) is a wrong answer for one of them."""
    roots, refs, m = world()
    memo = {}
    try:
        ex = E.build(ast, refs, memo=memo)
    except Exception:
        return None, 0
    if not E.is_ref(ex):
        return None, 0
    nodes = [(a, o) for a, o in memo.values() if E.is_ref(o) and a[0] != "loc"]
    nodes.sort(key=lambda ao: E.size(ao[0]), reverse=root_first)

    def ask(a, o, how):
        try:
            rep = o._get_dependencies()
            got = {E.dep_of_ref(r) for r in rep}
        except Exception as e:
            return Failure("C05:shared-node:raises", {"term": E.render(ast), "node": E.render(a), "raised": repr(e)[:200]})
        want = E.deps(a)
        if got != want:
            return Failure(f"C05:shared-node-deps-wrong:{type(o).__name__}",
                           {"term": E.render(ast), "node": E.render(a), "asked": how,
                            "missing": sorted(map(show_dep, want - got)), "extra": sorted(map(show_dep, got - want))})
        return None
    for a, o in nodes:
        f = ask(a, o, "root first, then each node" if root_first else "smallest node first, root last")
        if f:
            return f, len(nodes)
    # reuse: every node object as the right operand of a new parent whose left operand is another location
    for a, o in nodes[:6]:
        for pa in (["bin", "-", Z, a], ["call", E.loc("F", ("i", "add2")), [B, a], []]):
            try:
                po = E.build(pa, refs, memo=memo)
            except Exception:
                continue
            f = ask(pa, po, "new parent around an already interrogated node") or ask(a, o, "node again after its new parent")
            if f:
                return f, len(nodes)
    return None, len(nodes)


# ---------------------------------------------------------------------------------------------------------------
# refs inside tuples (multi-dimensional keys, tuple arguments): whatever the library does with them, a location whose
# change moves the REAL value of the expression must be reported
def tsum(t=(), *more):
    s = 0
    for x in tuple(t) + more:
        if isinstance(x, tuple):
            s = s + tsum(x)
        elif isinstance(x, (int, float)):
            s = s + x
        else:
            s = s + 1000
    return s


def real_value(ex):
    from xdeps.refs import BaseRef

    def canon(v):
        if isinstance(v, BaseRef):
            return "ref:" + str(v)
        if isinstance(v, tuple):
            return tuple(canon(x) for x in v)
        return E.show(v)
    try:
        return ("ok", canon(ex._get_value()))
    except Exception as e:
        return ("exc", type(e).__name__)


TUPLE_LEAVES = ["a", "b", "i0", "s0"]


def tuple_term(spec, refs):
    """spec = [slot, shape] with shape a nested list of leaf names / numbers -> expression"""
    d, F = refs["d"], refs["F"]

    def tup(sh):
        return tuple(tup(x) if isinstance(x, list) else (d[x] if isinstance(x, str) else x) for x in sh)
    slot, shape = spec
    t = tup(shape)
    if slot == "key":
        return d["grid"][t]
    if slot == "key(nested owner)":
        return d["n0"]["g"][t]
    if slot == "arg":
        return F["tsum"](t)
    if slot == "arg2":
        return F["tsum"](d["z"], t)
    if slot == "kwarg":
        return F["tsum"](t=t)
    if slot == "binop(tuple * ref)":
        return t * d["i0"]
    if slot == "binop(ref-sized repeat, then call)":
        return F["tsum"](t * d["i0"])
    if slot == "builtin param":
        return divmod(d["z"], t)
    raise ValueError(slot)


TUPLE_SLOTS = ["key", "key(nested owner)", "arg", "arg2", "kwarg", "binop(tuple * ref)",
               "binop(ref-sized repeat, then call)", "builtin param"]


def check_tuple(spec):
    roots, refs, m = world()
    grid = {(i, s): 100.0 * i + s for i in (1, 2) for s in (2, 3)}
    grid.update({(i,): 7.0 + i for i in (1, 2)})
    roots["d"]["grid"] = grid
    roots["d"]["n0"]["g"] = dict(grid)
    roots["F"]["tsum"] = tsum
    try:
        ex = tuple_term(spec, refs)
    except Exception:
        return None, "build-raises"
    if not E.is_ref(ex):
        return None, "constant"
    try:
        rep = ex._get_dependencies()
        got = {E.dep_of_ref(r) for r in rep}
    except Exception as e:
        return Failure("C05:tuple:raises", {"spec": spec, "term": str(ex), "raised": repr(e)[:200]}), "x"
    if not isinstance(rep, set):
        return Failure("C05:not-a-set:tuple", {"spec": spec, "term": str(ex), "returned": repr(rep)}), "x"
    moved = 0
    for name in TUPLE_LEAVES + ["z"]:
        v0 = real_value(ex)
        old = roots["d"][name]
        newv = NEW_VALUES.get(name, NEW_VALUES["num"])
        try:
            m.set_value(refs["d"][name], newv)
        except Exception:
            roots["d"][name] = old
            continue
        v1 = real_value(ex)
        roots["d"][name] = old
        if v0 != v1:
            moved += 1
            if ("loc", "d", (("i", name),)) not in got:
                return Failure("C05:value-follows-unreported-location:ref-inside-tuple",
                               {"spec": spec, "term": str(ex), "location": f"d['{name}']", "value_before": v0,
                                "value_after": v1, "reported": sorted(map(show_dep, got))}), "x"
    return None, ("value-moves" if moved else "value-ignores-tuple-members")


def tuple_specs():
    leaf = st.sampled_from(TUPLE_LEAVES) | st.sampled_from([1, 2, 2.5])
    shape = st.lists(leaf | st.lists(leaf, min_size=1, max_size=2), min_size=1, max_size=3)
    return st.tuples(st.sampled_from(TUPLE_SLOTS), shape).map(list)


def run_tuples(ctx):
    fixed = [[s, sh] for s in TUPLE_SLOTS for sh in (["i0", "s0"], ["i0"], ["a", "b"], ["a", 2], [["i0", "s0"]], [1, "s0"])]
    for i, spec in enumerate(fixed):
        if i % ctx.nshards != ctx.shard:
            continue
        f, info = check_tuple(spec)
        ctx.stats.case({"tuple": spec}, True, ["tuple", f"tuple-slot:{spec[0]}", f"tuple-outcome:{info}"])
        if f:
            ctx.fail(f, {"kind": "tuple", "spec": spec})

    def body(spec):
        f, info = check_tuple(spec)
        ctx.stats.case({"tuple": spec}, any(isinstance(x, (str, list)) for x in spec[1]),
                       ["tuple", f"tuple-slot:{spec[0]}", f"tuple-outcome:{info}"])
        if f is not None:
            f.case = {"kind": "tuple", "spec": spec}
        return f
    drive(ctx, tuple_specs(), body, ctx.n(60, 600), salt=9, label="C05 tuples")


def run_enumeration(ctx):
    table = slot_table()
    classes = discover()
    uncovered = [c for c in classes if c not in table and c not in ABSTRACT]
    ctx.stats.extra["node_classes_discovered"] = len(classes)
    ctx.stats.extra["node_classes_not_covered"] = len(uncovered)
    if uncovered:
        ctx.stats.notes.append("node classes without a slot-table entry (NOT covered): " + ", ".join(uncovered))
        ctx.fail(Failure("C05:uncovered-node-class",
                         {"classes": uncovered, "note": "a new node class must get a slot-table entry"}),
                 {"kind": "uncovered", "classes": uncovered})
    todo = []
    for cn in classes:
        if cn in ABSTRACT or cn not in table:
            continue
        for slot, builder in table[cn]:
            for fname, filler in FILLERS.items():
                todo.append((cn, slot, fname, builder(filler)))
    seen = set()
    for i, (cn, slot, fname, ast) in enumerate(todo):
        if i % ctx.nshards != ctx.shard:
            continue
        f, info = check_term(ast, cn)
        if info.startswith("structural-only"):
            ctx.stats.excluded["behavioural clause skipped: computed key on a top-level container (known finding K5)"] += 1
        nt = (not slot.startswith("lhs") and not slot.startswith("arg")) or fname in (
            "nested-2", "nested-3", "computed-item", "computed-item-on-root") or fname.startswith("computed-mid-chain")
        ctx.stats.case({"class": cn, "slot": slot, "filler": fname, "term": E.render(ast)}, nt,
                       ["enum", f"class:{cn}", f"filler:{fname}", f"outcome:{info}"])
        if f:
            ctx.fail(f, {"kind": "term", "ast": ast})
    ctx.stats.exhaustive["node class x operand slot x filler shape"] = True


TG = G.TermGen(LEAVES[:17] + [CHAIN_ITEM, CHAIN_ATTR, CHAIN_EXPR, ["item", DROOT, K0]], [S0], {k: E.loc("F", ("i", k)) for k in ("add2", "scale", "sq", "hyp")},
               [(LC, I0), (N0, K0)], lits=G.numbers(),
               ops=list(E.BINOPS), builtins=["abs", "round", "floor", "ceil", "trunc"], unary=list(E.UNOPS),
               allow_eq=True, allow_divmod=True, proj=True)


def run_trees(ctx):
    n = ctx.n(250, 3000)

    def body(ast):
        f, info = check_term(ast, "tree")
        if info.startswith("structural-only"):
            ctx.stats.excluded["behavioural clause skipped: computed key on a top-level container (known finding K5)"] += 1
        ctx.stats.case({"term": E.render(ast)}, E.n_ops(ast) >= 2, ["tree", f"outcome:{info}"])
        if f is not None:
            f.case = {"kind": "term", "ast": ast}
            return f
        root_first = int(digest(ast), 16) % 3 != 0
        f, nn = check_shared(ast, root_first)
        if nn >= 2:
            ctx.stats.classes["shared-nodes:" + ("root-first" if root_first else "leaves-first")] += 1
        if f is not None:
            f.case = {"kind": "shared", "ast": ast, "root_first": root_first}
        return f
    drive(ctx, TG.strategy(4), body, n, salt=5, label="C05 trees")


def run(ctx):
    run_enumeration(ctx)
    run_trees(ctx)
    run_tuples(ctx)


def replay(ctx, case):
    if case.get("kind") == "uncovered":
        table = slot_table()
        unc = [c for c in discover() if c not in table and c not in ABSTRACT]
        return Failure("C05:uncovered-node-class", {"classes": unc}) if unc else None
    if case.get("kind") == "shared":
        return check_shared(case["ast"], case["root_first"])[0]
    if case.get("kind") == "tuple":
        return check_tuple(case["spec"])[0]
    f, _ = check_term(case["ast"], "replay", k5=bool(case.get("k5")))
    return f
