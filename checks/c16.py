"""C16 - the Newton step is the least-squares solution; scalings and Jacobians are consistent.

lstsq    matrices built as U diag(s) V^T from drawn orthonormal factors (shapes 1..6 x 1..6, singular values
         log-spread over [1e-3, 1e3], exact zeros for rank deficiency, global scaling), any right-hand side,
         rcond in {default, 1e-10, 1e-5, 1e-2, 0.5}, sing_val_cutoff in {None, 1..min(m, n)} (given to the
         constructor or to lstsq):  SVD.lstsq(b) == sum over the KEPT singular triplets of v_i (u_i.b)/s_i,
         computed from the construction factors (not from another SVD).
step     consistent, well-conditioned linear problems inside wide limits (square, tall, wide; knob and
         target weights; Broyden on / off): after ONE step() the independently evaluated residual is zero up
         to finite-difference rounding, and solve() returns.
scaling  _x_to_knobs(_knobs_to_x(k)) == k and the reverse to 4 ulp; _scaled_to_native(_scaled_from_native(x))
         == x and the reverse to 1e-12 of the range, for positive weights, finite limits, any rescale interval.
views    for every combination of return_scalar x rescale_x: view(x) and view.get_jacobian(x) equal the value
         and the analytic Jacobian of that same view (weights, chain rule of the rescaling, 2 f^T J).
"""
import numpy as np
from hypothesis import strategies as st

from vlib import optfam as OF
from vlib.common import Failure, drive

RULE = ("lstsq: drawn factors / spectrum / rhs / truncation settings, non-trivial = non-square or rank deficient or >= 1 "
        "singular value dropped by rcond or cutoff.  step: drawn linear problems, non-trivial = non-square or weights != 1.  "
        "scaling / views: drawn weights, limits, intervals, points; non-trivial = asymmetric limits or weights != 1.  "
        "Distinct by case digest.")
ASSUMPTIONS = [
    "singular values are pairwise separated by a factor >= 1.5 and none lies within a factor 2 of the rcond threshold "
    "(otherwise 'the kept set' is not well defined in floating point)",
    "finite-difference steps of 1e-4..1e-6 on O(1) functions; tolerances: lstsq 1e-9 relative, one-step residual 1e-6 "
    "relative, view Jacobian: 4 x the forward-difference truncation bound computed from the family's second derivatives "
    "(+ 1e-6 relative)",
]
REQUIRED_CLASSES = ["lstsq:zero-matrix", "lstsq:zero-rows-or-columns", "lstsq:exact-zero-singular-value-without-threshold", "views:set_x/get_x", "lstsq:tall", "lstsq:wide", "lstsq:square", "lstsq:rank-deficient", "lstsq:dropped-by-rcond",
                    "lstsq:dropped-by-cutoff", "lstsq:rcond=0", "lstsq:settings-at-both-places", "step:square", "step:tall", "step:wide", "step:broyden",
                    "views:scalar+rescaled", "views:vector+native", "views:reused-after-change", "views:point-on-a-limit", "step:start-on-a-limit", "scaling"]
RCONDS = [None, 1e-10, 1e-5, 1e-2, 0.5, 0.0]      # 0.0 = keep every non-zero singular value


# ------------------------------------------------------------------ (a) lstsq
@st.composite
def lstsq_cases(draw):
    m = draw(st.integers(1, 6))
    n = draw(st.integers(1, 6))
    k = min(m, n)
    nzero = draw(st.sampled_from([0, 0, 0, 1, 2])) if k > 1 else 0
    nzero = min(nzero, k - 1)
    # descending spectrum with ratios >= 1.5
    logs = sorted([draw(st.floats(-3, 3)) for _ in range(k - nzero)], reverse=True)
    s = []
    for v in logs:
        x = 10.0 ** v
        if s and x > s[-1] / 1.5:
            x = s[-1] / draw(st.sampled_from([1.5, 2.0, 3.0, 10.0]))
        s.append(x)
    s = s + [0.0] * nzero
    return {"kind": "lstsq", "m": m, "n": n, "s": s, "seed": draw(st.integers(0, 2 ** 30)),
            "scale": draw(st.sampled_from([1.0, 1.0, 1e-6, 1e6, 3.7])),
            "rcond": draw(st.sampled_from(RCONDS)), "cutoff": draw(st.sampled_from([None, None] + list(range(1, k + 1)))),
            "where": draw(st.sampled_from(["ctor", "call", "both", "both"])),
            "b_kind": draw(st.sampled_from(["random", "in-range", "in-null-left"]))}


def exec_lstsq(ctx, c):
    from xdeps.optimize.matrixutils import SVD
    m, n = c["m"], c["n"]
    k = min(m, n)
    rs = np.random.RandomState(c["seed"])
    U, _ = np.linalg.qr(rs.normal(size=(m, m)))
    V, _ = np.linalg.qr(rs.normal(size=(n, n)))
    U, V = U[:, :k], V[:, :k]
    raw = np.array(c["s"], dtype=float) * c["scale"]
    if c["rcond"] == 0.0:
        # rcond = 0 keeps everything that is not exactly zero; a numerically-zero singular value of a constructed
        # rank-deficient matrix comes back as ~1e-17, so this setting is only meaningful on full-rank spectra
        for i in range(1, len(raw)):
            if raw[i] == 0.0:
                raw[i] = raw[i - 1] / 10.0
    rcond_eff = 1e-14 if c["rcond"] is None else c["rcond"]
    thr = rcond_eff * raw[0]
    # descending, pairwise separated by >= 1.5, and none within a factor 2 of the rcond threshold
    # (values only ever move DOWN, so the order is preserved)
    s = [float(raw[0])]
    for x in raw[1:]:
        x = float(x)
        if x > 0:
            x = min(x, s[-1] / 1.5)
            if thr / 2 < x < thr * 2:
                x = thr / 4
        s.append(x)
    s = np.array(s)
    M = (U * s) @ V.T
    if c["b_kind"] == "random":
        b = rs.uniform(-3, 3, size=m)
    elif c["b_kind"] == "in-range":
        b = M @ rs.uniform(-2, 2, size=n)
    else:
        b = rs.uniform(-1, 1, size=m)
        b = b - U @ (U.T @ b) if m > k else b
        b = b + U[:, 0] * 0.5
    cutoff = c["cutoff"]
    keep = [i for i in range(k) if (cutoff is None or i < cutoff) and s[i] > 0 and s[i] >= thr]
    want = np.zeros(n)
    for i in keep:
        want += V[:, i] * (U[:, i] @ b) / s[i]
    cls = ["lstsq", "lstsq:" + ("tall" if m > n else "wide" if n > m else "square")]
    npos = int(np.sum(s > 0))
    if npos < k:
        cls.append("lstsq:rank-deficient")
    kept_before_rcond = [i for i in range(k) if (cutoff is None or i < cutoff) and s[i] > 0]
    if len(keep) < len(kept_before_rcond):
        cls.append("lstsq:dropped-by-rcond")
    if cutoff is not None and cutoff < npos:
        cls.append("lstsq:dropped-by-cutoff")
    if c["rcond"] == 0.0:
        cls.append("lstsq:rcond=0")
    if c["where"] == "both":
        cls.append("lstsq:settings-at-both-places")
    nt = m != n or npos < k or len(keep) < npos
    rendered = {"shape": [m, n], "singular_values": [float(x) for x in s], "rcond": c["rcond"], "cutoff": cutoff,
                "given_to": c["where"], "rhs": c["b_kind"], "kept": keep}
    ctx.stats.case(rendered, nt, cls)
    try:
        if c["where"] == "ctor":
            kw = {}
            if c["rcond"] is not None:
                kw["rcond"] = c["rcond"]
            if cutoff is not None:
                kw["sing_val_cutoff"] = cutoff
            got = SVD(M, **kw).lstsq(b)
        elif c["where"] == "call":
            got = SVD(M).lstsq(b, rcond=c["rcond"], sing_val_cutoff=cutoff)
        else:
            # different settings at construction: the arguments of the call take precedence (None = constructor's)
            ctor_rcond = 1e-2 if c["rcond"] is not None else 1e-14
            got = SVD(M, rcond=ctor_rcond if c["rcond"] is not None else 1e-14,
                      sing_val_cutoff=None if cutoff is not None else None).lstsq(
                b, rcond=c["rcond"], sing_val_cutoff=cutoff)
    except Exception as e:
        return Failure(f"C16:lstsq-raises:{type(e).__name__}", dict(rendered, raised=repr(e)[:200]))
    got = np.asarray(got, dtype=float)
    if got.shape != (n,):
        return Failure("C16:lstsq-shape", dict(rendered, got=list(got.shape)))
    smin = min([s[i] for i in keep], default=1.0)
    # backward-stable SVD: the computed singular subspaces are off by ~eps * s_max / gap, and neighbouring singular
    # values are separated by >= 1.5 here, so the forward error scales with eps * cond(kept part)
    scale = np.linalg.norm(want) + np.linalg.norm(b) / smin
    tol = (1e-9 + 100 * np.finfo(float).eps * float(s[0]) / smin) * scale + 1e-300
    err = float(np.linalg.norm(got - want))
    if not np.all(np.isfinite(got)) or err > tol:
        return Failure("C16:lstsq-not-truncated-least-squares-solution",
                       dict(rendered, error=err, tolerance=float(tol), got=[float(x) for x in got], expected=[float(x) for x in want]))
    return None


# ------------------------------------------------------------------ (a2) structurally singular matrices
@st.composite
def zero_cases(draw):
    """a well-conditioned block embedded in an m x n matrix whose other rows / columns are EXACTLY zero (also: the zero
    matrix).  Such matrices have exactly-zero singular values, which no rcond setting may turn into 1/0."""
    m = draw(st.integers(1, 6))
    n = draw(st.integers(1, 6))
    rows = sorted(draw(st.sets(st.integers(0, m - 1), min_size=1, max_size=m)))
    cols = sorted(draw(st.sets(st.integers(0, n - 1), min_size=1, max_size=n)))
    if draw(st.integers(0, 4)) == 0:
        rows, cols = [], []                 # the zero matrix
    kb = min(len(rows), len(cols))
    return {"kind": "lstsq0", "m": m, "n": n, "rows": rows, "cols": cols,
            "sb": [draw(st.sampled_from([0.5, 1.0, 2.0, 5.0])) / (1.5 ** i) for i in range(kb)],
            "seed": draw(st.integers(0, 2 ** 30)), "rcond": draw(st.sampled_from(["default", 0.0, None, 1e-10, 1e-5])),
            "where": draw(st.sampled_from(["ctor", "call"]))}


def exec_lstsq0(ctx, c):
    from xdeps.optimize.matrixutils import SVD
    m, n, rows, cols = c["m"], c["n"], c["rows"], c["cols"]
    rs = np.random.RandomState(c["seed"])
    M = np.zeros((m, n))
    b = rs.uniform(-3, 3, size=m)
    want = np.zeros(n)
    kb = len(c["sb"])
    if kb:
        r, q = len(rows), len(cols)
        U, _ = np.linalg.qr(rs.normal(size=(r, r)))
        V, _ = np.linalg.qr(rs.normal(size=(q, q)))
        U, V = U[:, :kb], V[:, :kb]
        sb = np.array(c["sb"])
        M[np.ix_(rows, cols)] = (U * sb) @ V.T
        want[cols] = V @ ((U.T @ b[rows]) / sb)
    rendered = {"shape": [m, n], "nonzero_rows": rows, "nonzero_columns": cols, "block_singular_values": c["sb"],
                "rcond": c["rcond"], "given_to": c["where"]}
    cls = ["lstsq", "lstsq:structurally-singular", "lstsq:zero-matrix" if not kb else "lstsq:zero-rows-or-columns",
           f"lstsq0:rcond={c['rcond']}"]
    if c["rcond"] in (0.0, None):
        # without a positive threshold only EXACT zeros are dropped: the case is judged only if the factorization the
        # library itself uses (numpy's SVD of this very matrix) returns them as exact zeros
        sv = np.linalg.svd(M, compute_uv=False)
        if int(np.sum(sv > 0)) != kb:
            ctx.stats.excluded["structurally singular matrix whose zero singular values are not computed as exact zeros, with rcond 0 / None"] += 1
            return None
        cls.append("lstsq:exact-zero-singular-value-without-threshold")
    ctx.stats.case(rendered, True, cls)
    try:
        kw = {} if c["rcond"] == "default" else {"rcond": c["rcond"]}
        if c["where"] == "ctor" or c["rcond"] is None:
            got = SVD(M, **kw).lstsq(b)         # (rcond=None at the call means "the constructor's")
        else:
            got = SVD(M).lstsq(b, **kw)
    except Exception as e:
        return Failure(f"C16:lstsq-raises:{type(e).__name__}", dict(rendered, raised=repr(e)[:200]))
    got = np.asarray(got, dtype=float)
    tol = 1e-9 * (np.linalg.norm(want) + np.linalg.norm(b) + 1.0)
    if got.shape != (n,) or not np.all(np.isfinite(got)) or float(np.linalg.norm(got - want)) > tol:
        return Failure("C16:lstsq-not-minimum-norm-solution-of-singular-system",
                       dict(rendered, got=[float(x) for x in np.ravel(got)], expected=[float(x) for x in want]))
    return None


# ------------------------------------------------------------------ (b) one Newton step on linear problems
@st.composite
def step_cases(draw):
    n = draw(st.integers(1, 4))
    m = draw(st.integers(1, 5))
    spec = {"kind": "step", "family": "lin", "shape": "full", "n": n, "m": m, "coef_seed": draw(st.integers(0, 2 ** 30)),
            "x0": [draw(st.floats(-2, 2)) for _ in range(n)],
            "xstar": [draw(st.floats(-2, 2)) for _ in range(n)],
            "steps": [draw(st.sampled_from([1e-4, 1e-5, 1e-6])) for _ in range(n)],
            "vweights": [draw(st.sampled_from([1.0, 1.0, 0.5, 3.0, 10.0, 0.01])) for _ in range(n)],
            "tweights": [draw(st.sampled_from([1.0, 1.0, 2.0, 0.1, 25.0])) for _ in range(m)],
            "limits": [[-1e3, 1e3] for _ in range(n)] if draw(st.booleans()) else None,
            "start_on_limit": draw(st.sampled_from([None, None, "upper", "lower"])),
            "max_step": None, "tols": [1e-8] * m, "n_steps_max": 20,
            "broyden": draw(st.sampled_from([False, False, True, 2]))}
    return spec


def exec_step(ctx, spec):
    f, _ = OF.make_function(spec)
    n, m = spec["n"], spec["m"]
    spec = dict(spec, targets=[float(v) for v in f(np.array(spec["xstar"]))])
    on_limit = False
    if spec.get("start_on_limit") and all(w == 1.0 for w in spec["vweights"]) and n <= m:
        # every knob starts exactly ON a limit, on the side the (unique) solution is not: the step goes inward.
        # Unit knob weights only ((limit / w) * w may round to one ulp outside and trip the limit check); square / tall
        # systems only (for a wide system the minimum-norm step need not point towards the drawn solution).
        x0 = np.array(spec["x0"], dtype=float)
        xs = np.array(spec["xstar"], dtype=float)
        lims = [[float(b) - 50.0, float(a)] if b <= a else [float(a), float(b) + 50.0] for a, b in zip(x0, xs)]
        spec = dict(spec, limits=lims)
        on_limit = True
    cls = ["step", "step:" + ("tall" if m > n else "wide" if n > m else "square")]
    if spec["broyden"]:
        cls.append("step:broyden")
    if on_limit:
        cls.append("step:start-on-a-limit")
    wts = any(w != 1.0 for w in spec["vweights"] + spec["tweights"])
    if wts:
        cls.append("step:weights")
    rendered = {k: spec[k] for k in ("family", "n", "m", "x0", "xstar", "steps", "vweights", "tweights", "broyden")}
    ctx.stats.case(rendered, m != n or wts, cls)
    try:
        b = OF.build(spec)
        r0 = float(np.max(np.abs(OF.residuals(b))))
        b.opt.step(1, broyden=spec["broyden"])
        r1 = float(np.max(np.abs(OF.residuals(b))))
    except Exception as e:
        return Failure(f"C16:step-raises:{type(e).__name__}", dict(rendered, raised=repr(e)[:300]))
    tol = 1e-6 * (1.0 + r0)
    if not r1 <= tol:
        return Failure("C16:first-step-does-not-land-on-solution",
                       dict(rendered, residual_before=r0, residual_after=r1, tolerance=tol,
                            knobs=[float(x) for x in OF.knob_vector(b)]))
    try:
        b2 = OF.build(spec)
        b2.opt.solve(broyden=spec["broyden"])
    except Exception as e:
        return Failure(f"C16:solve-fails-on-consistent-linear-problem:{type(e).__name__}",
                       dict(rendered, raised=repr(e)[:300]))
    r2 = float(np.max(np.abs(OF.residuals(b2))))
    if not r2 < 1e-8:
        return Failure("C16:solve-returns-unmatched", dict(rendered, residual=r2))
    return None


# ------------------------------------------------------------------ (c) + (d) scalings and views
@st.composite
def view_cases(draw):
    n = draw(st.integers(1, 4))
    m = draw(st.integers(1, 5))
    lims = []
    for _ in range(n):
        lo = draw(st.sampled_from([-1.0, -3.0, -0.5, -10.0, 0.0]))
        hi = draw(st.sampled_from([1.0, 2.0, 4.5, 10.0, 0.75]))
        lims.append([lo, hi])
    spec = {"kind": "view", "family": draw(st.sampled_from(["quad", "trig", "lin"])), "shape": "full", "n": n, "m": m,
            "coef_seed": draw(st.integers(0, 2 ** 30)),
            "x0": [draw(st.floats(0.05, 0.45)) for _ in range(n)],
            "steps": [1e-6] * n,
            "vweights": [draw(st.sampled_from([1.0, 1.0, 0.5, 3.0, 10.0, 0.25])) for _ in range(n)],
            "tweights": [draw(st.sampled_from([1.0, 1.0, 2.0, 0.1, 7.0])) for _ in range(m)],
            "limits": lims, "max_step": None, "tols": [1e-9] * m,
            "targets": [draw(st.floats(-1, 1)) for _ in range(m)],
            "rescale": draw(st.sampled_from([[0.0, 1.0], [-1.0, 1.0], [2.0, 5.0], [-3.0, -1.0]])),
            # position inside the limits (fraction); the end points themselves are included: a knob sitting ON a limit
            # is where a one-sided finite-difference probe has to leave the box
            "point": [draw(st.one_of(st.floats(0.1, 0.9), st.floats(0.1, 0.9), st.sampled_from([0.0, 1.0])))
                      for _ in range(n)],
            "probe": [draw(st.floats(-1e3, 1e3)) for _ in range(n)]}
    # a knob with weight w is written as (limit / w) * w, which can land one ulp outside the limit and trip the limit
    # check: only unit-weight knobs are put exactly on a limit
    spec["point"] = [p if (w == 1.0 or 0.0 < p < 1.0) else 0.5 for p, w in zip(spec["point"], spec["vweights"])]
    return spec


def exec_view(ctx, spec):
    n, m = spec["n"], spec["m"]
    wv = np.array(spec["vweights"])
    wt = np.array(spec["tweights"])
    lims = np.array(spec["limits"], dtype=float)
    asym = any(abs(lo + hi) > 1e-12 for lo, hi in spec["limits"])
    wts = bool(np.any(wv != 1) or np.any(wt != 1))
    rendered = {k: spec[k] for k in ("family", "n", "m", "vweights", "tweights", "limits", "rescale", "point")}
    classes = ["views", "scaling"]
    if any(p in (0.0, 1.0) for p in spec["point"]):
        classes.append("views:point-on-a-limit")
    try:
        b = OF.build(spec)
    except Exception as e:
        ctx.stats.case(rendered, False, classes)
        return Failure(f"C16:build-raises:{type(e).__name__}", dict(rendered, raised=repr(e)[:200]))
    err = b.opt._err
    # ---- (c) weights
    probe = np.array(spec["probe"], dtype=float)
    back = err._x_to_knobs(err._knobs_to_x(probe))
    back2 = err._knobs_to_x(err._x_to_knobs(probe))
    for name, got in (("x_to_knobs(knobs_to_x(k))", back), ("knobs_to_x(x_to_knobs(x))", back2)):
        if np.any(np.abs(got - probe) > 4 * np.spacing(np.abs(probe))):
            ctx.stats.case(rendered, asym or wts, classes)
            return Failure("C16:weights-not-inverse", dict(rendered, direction=name, value=[float(x) for x in probe],
                                                          got=[float(x) for x in got]))
    knobs = lims[:, 0] + np.array(spec["point"]) * (lims[:, 1] - lims[:, 0])
    x_native = knobs / wv
    tgt = np.array(spec["targets"])

    def errvec(xn):
        return (b.f(np.asarray(xn) * wv) - tgt) * wt

    def jac_native(xn):
        return wt[:, None] * b.jac(np.asarray(xn) * wv) * wv[None, :]
    fail = None
    for scalar in (False, True):
        for resc in (None, tuple(spec["rescale"])):
            tag = f"views:{'scalar' if scalar else 'vector'}+{'rescaled' if resc else 'native'}"
            classes.append(tag)
            view = b.opt.get_merit_function(return_scalar=scalar, rescale_x=resc, check_limits=False)
            xlo, xhi = lims[:, 0] / wv, lims[:, 1] / wv
            if resc:
                r0, r1 = resc
                xs = r0 + (x_native - xlo) * (r1 - r0) / (xhi - xlo)
                dnat = (xhi - xlo) / (r1 - r0)
                # ---- (c) rescaling is a bijection
                got_s = view._scaled_from_native(x_native)
                got_n = view._scaled_to_native(got_s)
                if np.any(np.abs(got_s - xs) > 1e-12 * abs(r1 - r0)) or np.any(np.abs(got_n - x_native) > 1e-12 * (xhi - xlo)):
                    fail = Failure("C16:rescaling-not-inverse", dict(rendered, native=[float(x) for x in x_native],
                                                                    scaled=[float(x) for x in got_s], back=[float(x) for x in got_n]))
                    break
                ends = view._scaled_to_native(np.array([r0] * n)), view._scaled_to_native(np.array([r1] * n))
                if np.any(np.abs(ends[0] - xlo) > 1e-12 * (xhi - xlo)) or np.any(np.abs(ends[1] - xhi) > 1e-12 * (xhi - xlo)):
                    fail = Failure("C16:rescaling-end-points", dict(rendered, lower=[float(x) for x in ends[0]],
                                                                   upper=[float(x) for x in ends[1]]))
                    break
                xin = xs
            else:
                dnat = np.ones(n)
                xin = x_native
            # ---- (c) the public pair set_x / get_x of the view: x -> knobs -> x and knobs -> x -> knobs
            if all(0.0 < p < 1.0 for p in spec["point"]):
                classes.append("views:set_x/get_x")
                try:
                    view.set_x(xin)
                    k_after = OF.knob_vector(b)
                    x_back = np.asarray(view.get_x(), dtype=float)
                    view.set_x(x_back)
                    k_again = OF.knob_vector(b)
                except Exception as e:
                    fail = Failure(f"C16:set_x-get_x-raises:{type(e).__name__}", dict(rendered, view=tag, raised=repr(e)[:200]))
                    break
                span = (lims[:, 1] - lims[:, 0])
                if np.any(np.abs(k_after - knobs) > 1e-12 * span + 8 * np.spacing(np.abs(knobs))):
                    fail = Failure("C16:set_x-puts-other-knob-values", dict(rendered, view=tag, x=[float(v) for v in xin],
                                                                           knobs=[float(v) for v in k_after], expected=[float(v) for v in knobs]))
                    break
                sx = np.abs(np.asarray(xin, dtype=float))
                if np.any(np.abs(x_back - xin) > 1e-12 * (np.abs(dnat) ** -1) * (xhi - xlo) + 1e-12 * (1 + sx)):
                    fail = Failure("C16:get_x-is-not-inverse-of-set_x", dict(rendered, view=tag, x=[float(v) for v in xin],
                                                                             back=[float(v) for v in x_back]))
                    break
                if np.any(np.abs(k_again - k_after) > 1e-12 * span + 8 * np.spacing(np.abs(knobs))):
                    fail = Failure("C16:set_x(get_x())-moves-the-knobs", dict(rendered, view=tag, before=[float(v) for v in k_after],
                                                                              after=[float(v) for v in k_again]))
                    break
            e0 = errvec(x_native)
            J = jac_native(x_native) * dnat[None, :]
            want_val = float(np.sum(e0 * e0)) if scalar else e0
            want_jac = 2 * e0 @ J if scalar else J
            try:
                val = view(xin)
                jac = view.get_jacobian(xin)
            except Exception as e:
                fail = Failure(f"C16:view-raises:{type(e).__name__}", dict(rendered, view=tag, raised=repr(e)[:200]))
                break
            if not np.allclose(val, want_val, rtol=1e-10, atol=1e-12):
                fail = Failure("C16:view-value-differs", dict(rendered, view=tag, got=np.asarray(val).tolist(),
                                                              expected=np.asarray(want_val).tolist()))
                break
            jac = np.asarray(jac, dtype=float)
            wj = np.asarray(want_jac, dtype=float)
            if jac.shape != wj.shape:
                fail = Failure("C16:view-jacobian-shape", dict(rendered, view=tag, got=list(jac.shape), expected=list(wj.shape)))
                break
            tol = fd_tolerance(spec, e0, wt, wv, dnat, scalar, wj, knobs=knobs)
            if np.any(np.abs(jac - wj) > tol):
                fail = Failure("C16:view-jacobian-differs", dict(rendered, view=tag, max_error=float(np.max(np.abs(jac - wj))),
                                                                 tolerance=np.asarray(tol).tolist(), got=jac.tolist(), expected=wj.tolist()))
                break
        if fail:
            break
    if fail is None:
        fail = view_reuse(b, spec, rendered, classes)
    ctx.stats.case(rendered, asym or wts, classes)
    return fail


def fd_tolerance(spec, e0, wt, wv, dnat, scalar, want_jac, knobs=None):
    """forward-difference error bound for the Jacobian of a view.
    truncation, from the family's second derivatives:
      |error_ij| <= 0.5 * step_j * w_t,i * w_v,j * max|d2f_i/dx_j^2| * dnat_j   (vector view)
    rounding of the two function values that are subtracted (magnitude M_i of the terms summed in f_i - target_i):
      |error_ij| <= 2 * 16 eps * w_t,i * M_i / (step_j / w_v,j) * dnat_j
    and for the scalar view 2 * sum_i |e_i| * (both).  A factor 4 on the truncation term plus a small relative term
    covers the rest (the step actually taken differs from step_j by an ulp of the knob value)."""
    A, B, c = OF.coefficients(spec)
    fam = spec["family"]
    if fam == "lin":
        d2 = np.zeros_like(A)
    elif fam == "quad":
        d2 = 2.0 * np.abs(B)
    else:
        d2 = A * A          # |d2/dx_j^2 sin(A x)| <= A_ij^2
    steps = np.array(spec["steps"], dtype=float)
    err = 4.0 * 0.5 * steps[None, :] * wt[:, None] * wv[None, :] * d2 * dnat[None, :]
    if knobs is not None:
        k = np.abs(np.asarray(knobs, dtype=float))
        mag = np.abs(A) @ k + (np.abs(B) @ (k * k) if fam == "quad" else 0.0) + np.abs(c) \
            + np.abs(np.array(spec["targets"], dtype=float)) + 1.0
        err = err + 2 * 16 * np.finfo(float).eps * (wt * mag)[:, None] / (steps / wv)[None, :] * dnat[None, :]
    if scalar:
        bound = 2.0 * np.abs(e0) @ err
    else:
        bound = err
    return bound + 1e-6 * (np.abs(want_jac) + 1.0)


def view_reuse(b, spec, rendered, classes):
    """one view object used before AND after its limits / weight / rescale interval change: value and Jacobian must
    follow the live settings (a view is a thin wrapper, it must not keep derived quantities from an earlier call)"""
    n = spec["n"]
    tgt = np.array(spec["targets"])
    wt = np.array(spec["tweights"])
    classes.append("views:reused-after-change")
    for scalar in (False, True):
        view = b.opt.get_merit_function(return_scalar=scalar, rescale_x=tuple(spec["rescale"]), check_limits=False)
        orig = [(np.array(v.limits, dtype=float).copy(), v.weight) for v in b.opt.vary]
        try:
            for stage in ("initial", "limits-changed", "weight-changed", "interval-changed"):
                if stage == "limits-changed":
                    for v in b.opt.vary:
                        v.limits = np.array([v.limits[0] - 0.5, v.limits[1] + 1.5])
                elif stage == "weight-changed":
                    b.opt.vary[0].weight = b.opt.vary[0].weight * 2.0
                elif stage == "interval-changed":
                    view.rescale_x = (view.rescale_x[0] - 1.0, view.rescale_x[1] + 2.0)
                wv = np.array([v.weight for v in b.opt.vary])
                lims = np.array([v.limits for v in b.opt.vary], dtype=float)
                xlo, xhi = lims[:, 0] / wv, lims[:, 1] / wv
                r0, r1 = view.rescale_x
                x_native = xlo + np.array(spec["point"]) * (xhi - xlo)
                xs = r0 + (x_native - xlo) * (r1 - r0) / (xhi - xlo)
                dnat = (xhi - xlo) / (r1 - r0)
                e0 = (b.f(x_native * wv) - tgt) * wt
                J = (wt[:, None] * b.jac(x_native * wv) * wv[None, :]) * dnat[None, :]
                want_val = float(np.sum(e0 * e0)) if scalar else e0
                want_jac = 2 * e0 @ J if scalar else J
                val = view(xs)
                jac = np.asarray(view.get_jacobian(xs), dtype=float)
                tol = fd_tolerance(spec, e0, wt, wv, dnat, scalar, np.asarray(want_jac), knobs=x_native * wv)
                if not np.allclose(val, want_val, rtol=1e-10, atol=1e-12):
                    return Failure("C16:reused-view-value-differs", dict(rendered, stage=stage, scalar=scalar))
                if jac.shape != np.asarray(want_jac).shape or np.any(np.abs(jac - want_jac) > tol):
                    return Failure("C16:reused-view-jacobian-differs",
                                   dict(rendered, stage=stage, scalar=scalar, got=jac.tolist(),
                                        expected=np.asarray(want_jac).tolist()))
        except Exception as e:
            return Failure(f"C16:reused-view-raises:{type(e).__name__}", dict(rendered, raised=repr(e)[:200]))
        finally:
            for v, (lm, w) in zip(b.opt.vary, orig):
                v.limits, v.weight = lm, w
    return None


def run(ctx):
    drive(ctx, lstsq_cases(), lambda c: exec_lstsq(ctx, c), ctx.n(1500, 20000), salt=1, label="C16 lstsq")
    drive(ctx, zero_cases(), lambda c: exec_lstsq0(ctx, c), ctx.n(300, 4000), salt=4, label="C16 lstsq (structurally singular)")
    drive(ctx, step_cases(), lambda c: exec_step(ctx, c), ctx.n(150, 2000), salt=2, label="C16 step")
    drive(ctx, view_cases(), lambda c: exec_view(ctx, c), ctx.n(150, 2000), salt=3, label="C16 views")


def replay(ctx, case):
    return {"lstsq": exec_lstsq, "lstsq0": exec_lstsq0, "step": exec_step, "view": exec_view}[case["kind"]](ctx, case)
