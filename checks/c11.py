"""C11 - printed expressions rebuild themselves; dump / load / copy_expr_from are faithful.

expr   generated terms over a world whose item keys are adversarial (quotes, brackets, text that
       contains a container label or looks like a printed path, ints, negative ints):
       e2 = eval(str(e), {}, {label: ref})  must be a ref with  e2 == e, equal hash, the same
       structure (operand-level read-back, LiteralExpr wrappers ignored), the same dependency
       set, and the same value / exception as the mirrored Python term under two valuations.
load   generated histories (expression tasks); load(dump()) - also through a JSON round trip
       of the dump - into a fresh manager over copies of the data: same definitions (text and
       structure), verify() and the two-sided index invariant hold, queries equal, and the
       same follow-up assignments keep both worlds equal to the pull model.
copy   copy_expr_from(source, name): plain, overwrite=False over pre-existing definitions of
       the target, and with bindings that rebind a container label to a nested ref of the
       target: the target's definitions are exactly the model's (rebound) definitions, and
       after bringing it up to date it follows the model under follow-up assignments.
"""
import copy as _copy
import json

from hypothesis import strategies as st

from vlib import expr as E
from vlib import gen as G
from vlib import world as W
from vlib import histgen as H
from vlib.common import Failure, drive
from checks.c01 import xdeps_frame
from checks.c03 import check_indices, current_init, queries

RULE = ("expr: term depth<=4 over every node class, keys drawn from an adversarial pool; non-trivial = term has a "
        "non-arithmetic node (builtin / call / comparison / unary / computed key) or a negative literal or an adversarial "
        "key.  load: history of 3..25 ops then 1..5 follow-ups; non-trivial = >= 3 definitions at dump time and a follow-up "
        "triggers a task.  copy: source history + optional target history, mode in {plain, overwrite=False, bind d, "
        "bind d+e}; non-trivial = >= 2 definitions copied and a follow-up triggers one of them.  Distinct by case digest.")
ASSUMPTIONS = [
    "math.floor/ceil/trunc (known finding K2) and _eq/_neq (known finding K3) are excluded by construction from the main "
    "search and replayed as exemplars",
    "structure is compared modulo LiteralExpr wrappers (LiteralExpr(3) prints as 3 and legitimately reloads as a plain literal)",
    "copy_expr_from cases in which the merged definitions would be cyclic or in class K1 are discarded and counted",
    "expression tasks only (dump() and copy_expr_from() are defined on expression tasks)",
]
K2_SIG = "C11:K2-math-builtin-prints-bare-name"
K3_SIG = "C11:K3-deferred-equality-prints-as-comparison"
REQUIRED_CLASSES = ["expr:key:quote", "expr:key:label-inside", "expr:key:int", "expr:node:builtin+params",
                    "expr:node:call+kwargs", "expr:node:neg-literal-pow-base", "expr:node:computed-key",
                    "load:json-roundtrip", "copy:plain", "copy:no-overwrite", "copy:bind-rename", "copy:bind-d", "copy:bind-d+e", "copy:bind-rename/keep",
                    "copy:bind-rename/pre", "copy:bind-d/keep", "copy:kept-existing-definition"]

# ------------------------------------------------------------------ part 1: expressions
KEY_POOL = ["a", "b", "ref_a", "d", "ref", "o", "F", "d['x']", "a']['b", "o.a", "x'][0", "it's", 'say "hi"', "back\\slash",
            "new\nline", "", " ", "ünï", "1", "-1", "[0]", "']", "\t", "d_d", "ref.ref", "{x}", "%s", "0x10",
            1, -1, 0, 7, 10 ** 12, -3]
key_strategy = st.one_of(st.sampled_from(KEY_POOL), st.sampled_from(KEY_POOL),
                         st.text(alphabet="ab'\"[]. \\d_", max_size=5), st.integers(-4, 30))


class KObj:
    pass


def kw_roots(spec, which):
    K = spec["K"]
    vals = [E.dec(v) for v in spec[which]]
    n = len(K)
    o = KObj()
    o.a, o.b = vals[2 * n], vals[2 * n + 1]
    o.c = dict(zip(K, vals[:n]))
    d = dict(zip(K, vals[n:2 * n]))
    ref = {"in": dict(zip(K, vals[n:2 * n][::-1])), "kk": K[spec["kk"] % n], "i0": spec["i0"], "l": list(vals[:3])}
    return {"d": d, "ref": ref, "o": o, "F": dict(E.FUNCS)}


def kw_refs(roots):
    import xdeps
    m = xdeps.Manager()
    return m, {lab: m.ref(roots[lab], lab) for lab in ("d", "ref", "o", "F")}


def kw_locs(K):
    locs = []
    for k in K:
        locs.append(E.loc("d", ("i", k)))
        locs.append(E.loc("ref", ("i", "in"), ("i", k)))
        locs.append(E.loc("o", ("a", "c"), ("i", k)))
    locs += [E.loc("o", ("a", "a")), E.loc("o", ("a", "b"))]
    locs += [E.loc("ref", ("i", "l"), ("i", i)) for i in range(3)]
    return locs


@st.composite
def expr_cases(draw):
    K = draw(st.lists(key_strategy, min_size=3, max_size=5, unique_by=lambda k: (type(k).__name__, k)))
    n = len(K)
    nums = G.numbers(ints=True, floats=True, bools=True)
    vals = [E.enc(draw(nums)) for _ in range(2 * n + 2)]
    vals2 = [E.enc(draw(nums)) for _ in range(2 * n + 2)]
    spec = {"K": K, "vals": vals, "vals2": vals2, "kk": draw(st.integers(0, 4)), "i0": draw(st.integers(0, 2))}
    fn = {k: E.loc("F", ("i", k)) for k in ("add2", "scale", "sq", "hyp")}
    comp = [(E.loc("ref", ("i", "in")), E.loc("ref", ("i", "kk"))), (E.loc("ref", ("i", "l")), E.loc("ref", ("i", "i0"))),
            (["loc", "d", []], E.loc("ref", ("i", "kk")))]
    lits = st.one_of(G.py_ints, G.py_floats, st.booleans(), st.sampled_from([-3, -1, -0.5, -2.5e-3, 1e22, 1e-7, -1e16]))
    tg = G.TermGen(kw_locs(K), [E.loc("ref", ("i", "i0"))], fn, comp, lits=lits,
                   ops=G.ARITH + G.DIVS + G.CMPS + G.BITS + G.SHIFTS + ["**", "@"],
                   builtins=["abs", "round"], unary=["-", "+", "~"], allow_eq=False, allow_divmod=False)
    ast = tg.term(draw, draw(st.integers(1, 4)))
    shape = draw(st.integers(0, 9))
    if shape == 0:      # negative literal base of a power (bounded exponent leaf)
        ast = ["bin", "**", E.lit(draw(st.sampled_from([-3, -2.5, -1, -0.5]))), ["bin", "*", ast, E.lit(0)]] \
            if draw(st.booleans()) else ["bin", "**", E.lit(draw(st.sampled_from([-3, -2.5, -1]))), E.loc("ref", ("i", "i0"))]
    elif shape == 1:
        ast = ["bin", draw(st.sampled_from(["+", "*", "-"])), ["litexpr", E.lit(draw(nums))], ast]
    elif shape == 2:
        # divmod only at the top: a tuple value below `*` or a call is repeated value-many times (memory)
        ast = ["bi", "divmod", ast, [tg.term(draw, 1) if draw(st.booleans()) else tg.lit(draw)]]
    spec["ast"] = ast
    spec["kind"] = "expr"
    return spec


def strip_lit(a):
    if a[0] == "litexpr":
        return a[1]
    if a[0] in ("loc", "lit", "unknown"):
        return a
    if a[0] in ("bin",):
        return ["bin", a[1], strip_lit(a[2]), strip_lit(a[3])]
    if a[0] in ("eq", "neq", "item", "cattr"):
        return [a[0], strip_lit(a[1]), strip_lit(a[2])]
    if a[0] == "un":
        return ["un", a[1], strip_lit(a[2])]
    if a[0] == "bi":
        return ["bi", a[1], strip_lit(a[2]), [strip_lit(p) for p in a[3]]]
    if a[0] == "call":
        return ["call", strip_lit(a[1]), [strip_lit(x) for x in a[2]], [[k, strip_lit(x)] for k, x in a[3]]]
    return a


def ast_features(ast, out=None):
    out = set() if out is None else out
    t = ast[0]
    if t == "loc":
        for kind, k in ast[2]:
            if kind == "i":
                if isinstance(k, int):
                    out.add("key:int" if k >= 0 else "key:negative-int")
                else:
                    if "'" in k or '"' in k:
                        out.add("key:quote")
                    if any(lab in k for lab in ("d", "ref", "o", "F")) and k not in ("a", "b"):
                        out.add("key:label-inside")
                    if any(c in k for c in "[]."):
                        out.add("key:path-like")
                    if "\\" in k or "\n" in k or "\t" in k:
                        out.add("key:escape")
    elif t == "lit":
        v = E.dec(ast[1])
        if isinstance(v, (int, float)) and not isinstance(v, bool) and v < 0:
            out.add("node:neg-literal")
        if isinstance(v, float) and ("e" in repr(v)):
            out.add("node:exponent-literal")
    elif t == "bin":
        out.add("node:bin:" + ("arith" if ast[1] in "+-*/" else ast[1]))
        if ast[1] == "**" and ast[2][0] == "lit":
            v = E.dec(ast[2][1])
            if not isinstance(v, bool) and v < 0:
                out.add("node:neg-literal-pow-base")
    elif t == "un":
        out.add("node:un:" + ast[1])
    elif t == "bi":
        out.add("node:builtin" + ("+params" if ast[3] else ""))
    elif t == "call":
        out.add("node:call" + ("+kwargs" if ast[3] else ""))
    elif t == "item":
        out.add("node:computed-key")
    elif t == "litexpr":
        out.add("node:literal-expr")
    elif t in ("eq", "neq"):
        out.add("node:" + t)
    for s in E.subterms(ast):
        ast_features(s, out)
    return out


def outcome(fn):
    try:
        return ("ok", fn())
    except RecursionError:
        raise
    except Exception as e:
        return ("exc", type(e).__name__)


def same_outcome(a, b):
    if a[0] != b[0]:
        return False
    return a[1] == b[1] if a[0] == "exc" else E.same(a[1], b[1])


def show_outcome(a):
    return a[1] if a[0] == "exc" else E.show(a[1])


def exec_expr(ctx, spec):
    ast = spec["ast"]
    feats = ast_features(ast)
    classes = ["expr"] + sorted("expr:" + f for f in feats)
    nt = any(f.startswith("node:") and not f.startswith("node:bin:arith") for f in feats) or \
        any(f.startswith("key:") and f != "key:int" for f in feats)
    rendered = {"term": E.render(ast), "keys": [repr(k) for k in spec["K"]]}

    def finish(f):
        ctx.stats.case(rendered, nt, classes)
        return f
    roots = kw_roots(spec, "vals")
    m, refs = kw_refs(roots)
    try:
        e = E.build(ast, refs)
    except Exception as ex:
        # building applies Python operators to refs: only a literal-only sub-term can raise here
        rendered["build_raises"] = type(ex).__name__
        classes.append("expr:build-raises")
        return finish(None)
    if not E.is_ref(e):
        return finish(None)
    text = str(e)
    rendered["printed"] = text
    where = {"term": E.render(ast), "printed": text}
    has_math = any(f == "node:builtin" for f in feats) and _uses(ast, ("floor", "ceil", "trunc"))
    has_eq = "node:eq" in feats or "node:neq" in feats
    try:
        e2 = eval(text, {}, dict(refs))
    except Exception as ex:
        sig = K2_SIG if (has_math and isinstance(ex, NameError)) else f"C11:printed-text-does-not-evaluate:{type(ex).__name__}"
        return finish(Failure(sig, dict(where, raised=repr(ex)[:200])))
    if not E.is_ref(e2):
        sig = K3_SIG if has_eq else "C11:printed-text-evaluates-to-non-ref"
        return finish(Failure(sig, dict(where, got=E.show(e2) if not isinstance(e2, (dict, list)) else type(e2).__name__)))
    s1, s2 = strip_lit(E.unbuild(e)), strip_lit(E.unbuild(e2))
    if not (e2 == e) or (e2 != e):
        sig = K3_SIG if has_eq else "C11:rebuilt-expression-not-equal"
        return finish(Failure(sig, dict(where, reprinted=str(e2))))
    if hash(e2) != hash(e) and E.ast_equal(E.unbuild(e), E.unbuild(e2)):
        return finish(Failure("C11:rebuilt-expression-hash-differs", where))
    d1 = {E.dep_of_ref(r) for r in e._get_dependencies()}
    d2 = {E.dep_of_ref(r) for r in e2._get_dependencies()}
    if d1 != d2:
        return finish(Failure("C11:rebuilt-expression-dependencies-differ",
                              dict(where, original=sorted(map(repr, d1 - d2)), rebuilt=sorted(map(repr, d2 - d1)))))
    if not E.ast_equal(s1, s2):
        sig = K3_SIG if has_eq else "C11:rebuilt-expression-structure-differs"
        return finish(Failure(sig, dict(where, original=repr(s1)[:300], rebuilt=repr(s2)[:300])))
    for which in ("vals", "vals2"):
        r2 = kw_roots(spec, which)
        # same manager / refs: move the new values into the live containers
        roots["d"].update(r2["d"])
        roots["ref"]["in"].update(r2["ref"]["in"])
        roots["ref"]["l"][:] = r2["ref"]["l"]
        roots["o"].a, roots["o"].b = r2["o"].a, r2["o"].b
        roots["o"].c.update(r2["o"].c)
        py = outcome(lambda: E.mirror(ast, roots, limit=10 ** 60))
        if py == ("exc", "TooBig"):
            ctx.stats.excluded["int magnitude bound (Python ints are unbounded)"] += 1
            break
        v1 = outcome(e._get_value)
        v2 = outcome(e2._get_value)
        if not same_outcome(v1, v2):
            return finish(Failure("C11:rebuilt-expression-value-differs",
                                  dict(where, valuation=which, original=show_outcome(v1), rebuilt=show_outcome(v2),
                                       python=show_outcome(py))))
        if not same_outcome(v2, py):
            return finish(Failure("C11:value-differs-from-python",
                                  dict(where, valuation=which, rebuilt=show_outcome(v2), python=show_outcome(py))))
    return finish(None)


def _uses(ast, names):
    if ast[0] == "bi" and ast[1] in names:
        return True
    return any(_uses(s, names) for s in E.subterms(ast))


def nonfinite_literal(ast):
    if ast[0] not in ("lit", "litexpr", "loc") and not E.has_ref(ast):
        # a reference-free sub-term is folded by Python before the library sees it (1e16 * 1e308 -> inf)
        try:
            v = E.mirror(ast, {})
            if isinstance(v, float) and (v != v or v in (float("inf"), float("-inf"))):
                return True
        except Exception:
            pass
    if ast[0] == "lit":
        v = E.dec(ast[1])
        return isinstance(v, float) and (v != v or v in (float("inf"), float("-inf")))
    if ast[0] == "litexpr":
        return nonfinite_literal(ast[1])
    return any(nonfinite_literal(x) for x in E.subterms(ast))


OUTSIDE = "definition holds a non-finite literal (in-place operator captured a NaN/inf value): outside the quantifier"


# ------------------------------------------------------------------ part 2: dump / load
def task_structs(mgr):
    return {str(t.taskid): strip_lit(E.unbuild(t.expr)) for t in mgr.tasks.values() if hasattr(t, "expr")}


def compare_defs(mgr_a, mgr_b, where, prefix):
    d1, d2 = sorted(map(tuple, mgr_a.dump())), sorted(map(tuple, mgr_b.dump()))
    if d1 != d2:
        diff = [x for x in d1 if x not in d2][:2] + [x for x in d2 if x not in d1][:2]
        return Failure(prefix + ":definitions-differ", dict(where, differing=diff))
    s1, s2 = task_structs(mgr_a), task_structs(mgr_b)
    for k in s1:
        if k not in s2 or not E.ast_equal(s1[k], s2[k]):
            return Failure(prefix + ":expression-structure-differs",
                           dict(where, target=k, original=repr(s1[k])[:300], other=repr(s2.get(k))[:300]))
    return None


@st.composite
def load_cases(draw, opts):
    g = H.Gen(draw, opts)
    n = draw(st.integers(opts.min_ops, opts.max_ops))
    alive = True
    for _ in range(n):
        if not g.step():
            alive = False
            break
    n_hist = len(g.ops)
    if alive and not g.raised:
        for _ in range(draw(st.integers(1, 5))):
            if not g.step(kinds={"setv", "sete", "inplace"} if draw(st.integers(0, 3)) == 0 else {"setv"}):
                break
    c = g.case()
    c["n_hist"] = n_hist
    c["via_json"] = draw(st.booleans())
    c["dct"] = draw(st.sampled_from(["default", "explicit"]))
    c["kind"] = "load"
    return c


def apply_both(model, worlds, op):
    """-> (model_exc, {name: exc})"""
    mexc = None
    try:
        model.apply(op)
    except Exception as e:
        mexc = e
    outs = {}
    for name, w in worlds:
        try:
            w.apply(op)
            outs[name] = None
        except Exception as e:
            outs[name] = e
    return mexc, outs


def exec_load(ctx, case):
    init = H.dec_init(case)
    model = W.Model(init)
    real = W.Real(init)
    ops = case["ops"]
    hist, follow = ops[:case["n_hist"]], ops[case["n_hist"]:]
    classes = {"load"}
    rendered = {"history": W.render_case({"ops": hist}), "follow_ups": W.render_case({"ops": follow}),
                "via_json": case["via_json"]}
    state = {"nt": False}

    def finish(f, nt=None):
        ctx.stats.case(rendered, state["nt"] if nt is None else nt, sorted(classes))
        return f
    for op in hist:
        mexc, outs = apply_both(model, [("orig", real)], op)
        if mexc is not None or outs["orig"] is not None:
            classes.add("load:history-ends-in-exception")
            return finish(None, False)
    where = {"history": rendered["history"]}
    if any(nonfinite_literal(a) for a in model.defs.values()):
        ctx.stats.excluded[OUTSIDE] += 1
        return finish(None, False)
    k1 = model.k1 or model.k1_now() is not None
    try:
        dump = real.m.dump()
        if case["via_json"]:
            classes.add("load:json-roundtrip")
            dump = json.loads(json.dumps(dump))
        fr = W.Real(current_init(model))
        if case["dct"] == "explicit":
            fr.m.load(dump, dct=dict(fr.refs))
        else:
            fr.m.load(dump)
    except Exception as e:
        return finish(Failure(f"C11:load-raises:{type(e).__name__}:{xdeps_frame(e)}", dict(where, raised=repr(e)[:300])), True)
    try:
        f = compare_defs(real.m, fr.m, where, "C11:load")
        if f:
            return finish(f, True)
        if len(fr.m.tasks) != len(model.defs):
            return finish(Failure("C11:load:task-count", dict(where, loaded=len(fr.m.tasks), expected=len(model.defs))), True)
        try:
            fr.m.verify()
        except Exception as e:
            return finish(Failure("C11:load:verify-raises", dict(where, raised=repr(e)[:300])), True)
        f = check_indices(fr.m, dict(where, manager="loaded"))
        if f:
            f.sig = f.sig.replace("C03:", "C11:load:")
            return finish(f, True)
        q0, q1 = queries(real), queries(fr)
        for loc in q0:
            if q0[loc] != q1[loc]:
                return finish(Failure("C11:load:query-differs", dict(where, location=loc)), True)
        worlds = [("orig", real), ("loaded", fr)]
        for j, op in enumerate(follow):
            if op["op"] in ("setv", "inplace") and len(model.defs) >= 3 and model.trigger_sets(W.tuple_loc(op["loc"]))[0]:
                state["nt"] = True
            mexc, outs = apply_both(model, worlds, op)
            wh = dict(where, follow_up=j, op=W.render_op(op))
            types = {n: (type(e).__name__ if e else None) for n, e in outs.items()}
            if len(set(types.values())) > 1:
                return finish(Failure("C11:load:follow-up-exception-differs", dict(wh, outcomes=types)), True)
            if mexc is not None:
                if outs["orig"] is None and not k1:
                    return finish(Failure("C11:load:no-exception-where-python-raises", dict(wh, python=type(mexc).__name__)), True)
                break
            if outs["orig"] is not None:
                if k1:
                    break
                e = outs["orig"]
                return finish(Failure(f"C11:load:follow-up-exception:{type(e).__name__}:{xdeps_frame(e)}",
                                      dict(wh, raised=repr(e)[:300])), True)
            k1 = k1 or model.k1
            if not k1:
                for name, w in worlds:
                    d = W.diff_roots(w.roots, model.roots)
                    if d is not None:
                        return finish(Failure("C11:load:follow-up-contents-differ",
                                              dict(wh, manager=name, location=d[0], real=d[1], expected=d[2])), True)
            f = compare_defs(real.m, fr.m, wh, "C11:load:after-follow-up")
            if f:
                return finish(f, True)
    except Exception as e:
        return finish(Failure(f"C11:load:exception:{type(e).__name__}:{xdeps_frame(e)}", dict(where, raised=repr(e)[:300])), True)
    for why, n in case.get("excluded", {}).items():
        ctx.stats.excluded[why] += n
    return finish(None)


# ------------------------------------------------------------------ part 3: copy_expr_from
# <binding>[/keep][/pre]:  /keep = overwrite=False over pre-existing definitions of the target, /pre = the target has
# definitions of its own that the copy may overwrite
MODES = ["plain", "no-overwrite", "bind-rename", "bind-d", "bind-d+e", "bind-rename/keep", "bind-rename/pre", "bind-d/keep"]
BIND_MODES = ("bind-rename", "bind-d", "bind-d+e")


def base_of(mode):
    return mode.split("/")[0]


def keeps(mode):
    return mode == "no-overwrite" or mode.endswith("/keep")


def has_prehistory(mode):
    return mode in ("plain", "no-overwrite") or "/" in mode


def tr_op(op, bind):
    out = dict(op)
    if "loc" in op:
        out["loc"] = W.json_loc(tr_key(W.tuple_loc(op["loc"]), bind))
    if "ast" in op:
        out["ast"] = tr_ast(op["ast"], bind)
    if "operand" in op:
        out["operand"] = tr_ast(op["operand"], bind)
    return out


def tr_key(key, bind):
    if key[0] in bind:
        lab, pre = bind[key[0]]
        return (lab, tuple(pre) + tuple(key[1]))
    return key


def tr_ast(ast, bind):
    if ast[0] == "loc":
        return W.ast_loc(tr_key(E.loc_key(ast), bind))
    if ast[0] in ("lit", "litexpr"):
        return ast
    if ast[0] == "bin":
        return ["bin", ast[1], tr_ast(ast[2], bind), tr_ast(ast[3], bind)]
    if ast[0] in ("eq", "neq", "item", "cattr"):
        return [ast[0], tr_ast(ast[1], bind), tr_ast(ast[2], bind)]
    if ast[0] == "un":
        return ["un", ast[1], tr_ast(ast[2], bind)]
    if ast[0] == "bi":
        return ["bi", ast[1], tr_ast(ast[2], bind), [tr_ast(p, bind) for p in ast[3]]]
    if ast[0] == "call":
        return ["call", tr_ast(ast[1], bind), [tr_ast(a, bind) for a in ast[2]], [[k, tr_ast(a, bind)] for k, a in ast[3]]]
    raise ValueError(ast)


def bind_map(mode):
    mode = base_of(mode)
    if mode == "bind-rename":
        return {"d": ("dd", ())}
    if mode == "bind-d":
        return {"d": ("T", (("i", "sub"),))}
    if mode == "bind-d+e":
        return {"d": ("T", (("i", "sub"),)), "e": ("T", (("i", "eobj"),))}
    return {}


def restructure(roots, mode):
    """standard roots -> target roots for the binding modes"""
    mode = base_of(mode)
    if mode not in BIND_MODES:
        return roots
    if mode == "bind-rename":
        return {"dd": roots["d"], "e": roots["e"], "g": roots["g"], "F": roots["F"]}
    T = W.LDict()
    T._vpath = "T"
    dict.__setitem__(T, "sub", roots["d"])
    out = {"T": T, "g": roots["g"], "F": roots["F"]}
    if mode == "bind-d+e":
        dict.__setitem__(T, "eobj", roots["e"])
    else:
        out["e"] = roots["e"]
    return out


def target_real(init, mode):
    import xdeps
    if base_of(mode) not in BIND_MODES:
        return W.Real(init)
    roots = restructure(W.build_roots(init), mode)
    self = W.Real.__new__(W.Real)
    self.xd = xdeps
    self.roots = roots
    self.m = xdeps.Manager()
    self.refs = {}
    for lab, c in roots.items():
        self.refs[lab] = self.m.refattr(c, lab) if lab == "g" else self.m.ref(c, lab)
    self.named = {}
    return self


def diff_any(real_roots, model_roots):
    for lab in sorted(model_roots):
        r = W._diff(real_roots[lab], model_roots[lab], lab)
        if r:
            return r
    return None


def merged_defs(src_defs, tgt_defs, name, bind, overwrite):
    """definitions of the target after copy_expr_from (model side); tgt_defs already in target coordinates"""
    out = dict(tgt_defs)
    copied = []
    for t, ast in src_defs.items():
        if t[0] != name:
            continue
        t2, a2 = tr_key(t, bind), tr_ast(ast, bind)
        if t2 in out:
            if not overwrite:
                continue
            out.pop(t2)
        out[t2] = a2
        copied.append(t2)
    return out, copied


@st.composite
def copy_cases(draw, opts):
    mode = draw(st.sampled_from(MODES))
    name = draw(st.sampled_from(["d", "d", "d", "e", "g"])) if mode in ("plain", "no-overwrite") else \
        draw(st.sampled_from(["d", "d", "e"] if base_of(mode) == "bind-d+e" else ["d"]))
    gs = H.Gen(draw, opts)
    for _ in range(draw(st.integers(3, opts.max_ops))):
        if not gs.step():
            break
    src = gs.case()
    case = {"kind": "copy", "mode": mode, "name": name, "init": src["init"], "ops": src["ops"],
            "excluded": src["excluded"], "src_raised": gs.raised, "tgt": None, "follow": [],
            "bind_keys": draw(st.sampled_from(["label", "ref"]))}
    if gs.raised:
        return case
    if has_prehistory(mode):
        gt = H.Gen(draw, H.Opts(ftasks=False, knobs=False, maint=False, max_ops=8, min_ops=0, math_builtins=False,
                                setc=False, unreg=False))
        for _ in range(draw(st.integers(0 if "/" not in mode else 2, 8))):
            if not gt.step():
                break
        if gt.raised:
            case["src_raised"] = True
            return case
        tgt = gt.case()
        case["tgt"] = {"init": tgt["init"], "ops": tgt["ops"]}
        tm = gt.model
    else:
        tm = W.Model(current_init(gs.model))
        case["tgt"] = {"init": {k: E.enc(v) for k, v in current_init(gs.model).items()}, "ops": []}
    # the generator works in the standard world (a rebinding only relabels); translation happens at execution
    defs, copied = merged_defs(gs.model.defs, tm.defs, name, {}, not keeps(mode))
    tm.defs = defs
    tm.limit = H.INT_LIMIT
    ok = True
    try:
        tm.topo()
        if tm.k1_now() is not None:
            ok = False
    except AssertionError:
        ok = False
    if not ok:
        case["discard"] = "merged definitions cyclic or in class K1"
        return case
    try:
        tm.recompute()
    except Exception:
        case["discard"] = "Python raises while bringing the target up to date"
        return case
    # follow-ups: plain value assignments drawn against the merged model (standard world)
    if has_prehistory(mode):
        gf = gt
    else:
        gf = gs
        gf.model = tm
    gf.ops = []
    for _ in range(draw(st.integers(1, 5))):
        if not gf.push(gf.mk_setv()):
            break
    case["follow"] = list(gf.ops)
    return case


def exec_copy(ctx, case):
    mode, name = case["mode"], case["name"]
    classes = {"copy", "copy:" + mode, "copy:name=" + name}
    rendered = {"mode": mode, "container": name, "source": W.render_case(case),
                "target": W.render_case(case["tgt"]) if case["tgt"] else None,
                "follow_ups": W.render_case({"ops": case["follow"]})}
    state = {"nt": False}

    def finish(f, nt=None):
        ctx.stats.case(rendered, state["nt"] if nt is None else nt, sorted(classes))
        return f
    for why, n in case.get("excluded", {}).items():
        ctx.stats.excluded[why] += n
    if case.get("src_raised") or case["tgt"] is None:
        classes.add("copy:history-ends-in-exception")
        return finish(None, False)
    if case.get("discard"):
        ctx.stats.excluded["copy: " + case["discard"]] += 1
        return finish(None, False)
    src_model = W.Model(H.dec_init(case))
    src = W.Real(H.dec_init(case))
    for op in case["ops"]:
        mexc, outs = apply_both(src_model, [("src", src)], op)
        if mexc is not None or outs["src"] is not None:
            return finish(None, False)
    tinit = {k: E.dec(v) for k, v in case["tgt"]["init"].items()}
    tgt_model = W.Model(tinit)
    tgt = target_real(tinit, mode)
    bind = bind_map(mode)
    for op in case["tgt"]["ops"]:
        try:
            tgt_model.apply(op)                 # standard coordinates
            tgt.apply(tr_op(op, bind))          # the target's own labels
        except Exception:
            return finish(None, False)
    if case["tgt"]["ops"] and bind:
        classes.add("copy:target-has-own-definitions+rebinding")
    if any(nonfinite_literal(a) for mm in (src_model, tgt_model) for a in mm.defs.values()):
        ctx.stats.excluded[OUTSIDE] += 1
        return finish(None, False)
    own = {tr_key(t, bind): tr_ast(a, bind) for t, a in tgt_model.defs.items()}
    defs, copied = merged_defs(src_model.defs, own, name, bind, not keeps(mode))
    if keeps(mode) and any(tr_key(t, bind) in own for t in src_model.defs if t[0] == name):
        classes.add("copy:kept-existing-definition")
    tgt_model.roots = restructure(tgt_model.roots, mode)
    tgt_model.defs = defs
    where = {"mode": mode, "container": name, "source": rendered["source"], "target": rendered["target"]}
    kwargs = {}
    if keeps(mode):
        kwargs["overwrite"] = False
    if bind:
        b = {}
        for lab, (tl, pre) in bind.items():
            r = tgt.refs[tl]
            for kind, k in pre:
                r = r[k] if kind == "i" else getattr(r, k)
            b[lab if case["bind_keys"] == "label" else src.refs[lab]] = r
        kwargs["bindings"] = b
    try:
        tgt.m.copy_expr_from(src.m, name, **kwargs)
    except Exception as e:
        return finish(Failure(f"C11:copy-raises:{type(e).__name__}:{xdeps_frame(e)}", dict(where, raised=repr(e)[:300])), True)
    try:
        # ---- definitions: exactly the model's
        got = task_structs(tgt.m)
        want = {}
        for t, a in defs.items():
            # built with the real operators so that reflected forms (0 < x  ->  x > 0) are normalised
            want[str(tgt.ref(t))] = strip_lit(E.unbuild(tgt.build(a)))
        if set(got) != set(want):
            return finish(Failure("C11:copy:definition-set-differs",
                                  dict(where, unexpected=sorted(set(got) - set(want))[:4], missing=sorted(set(want) - set(got))[:4])), True)
        for k in want:
            if not E.ast_equal(got[k], want[k]):
                return finish(Failure("C11:copy:definition-differs",
                                      dict(where, target=k, got=repr(got[k])[:300], expected=repr(want[k])[:300])), True)
        try:
            tgt.m.verify()
        except Exception as e:
            return finish(Failure("C11:copy:verify-raises", dict(where, raised=repr(e)[:300])), True)
        f = check_indices(tgt.m, dict(where, manager="target"))
        if f:
            f.sig = f.sig.replace("C03:", "C11:copy:")
            return finish(f, True)
        # the source must be untouched
        f = compare_src(src, src_model, where)
        if f:
            return finish(f, True)
        if tgt_model.k1_now() is not None:
            # rebinding below a nested ref puts all members under one owner: the manager's ordering
            # relation becomes cyclic (known finding K1 of C01) - only definitions are compared
            classes.add("copy:K1-after-rebinding")
            return finish(None, len(copied) >= 2)
        # ---- bring the target up to date through the API, then follow-ups
        try:
            tgt.m.run_tasks(tgt.m.find_tasks())
            tgt_model.recompute()
        except Exception as e:
            classes.add("copy:raises-while-updating")
            return finish(None, False)
        d = diff_any(tgt.roots, tgt_model.roots)
        if d is not None:
            return finish(Failure("C11:copy:contents-differ-after-update",
                                  dict(where, location=d[0], real=d[1], expected=d[2])), True)
        for j, op in enumerate(case["follow"]):
            op2 = dict(op, loc=W.json_loc(tr_key(W.tuple_loc(op["loc"]), bind)))
            key2 = W.tuple_loc(op2["loc"])
            trig = tgt_model.trigger_sets(key2)[0]
            if len(copied) >= 2 and any(("def", c) in trig for c in copied):
                state["nt"] = True
            mexc, outs = apply_both(tgt_model, [("tgt", tgt)], op2)
            wh = dict(where, follow_up=j, op=W.render_op(op2))
            if mexc is not None:
                if outs["tgt"] is None:
                    return finish(Failure("C11:copy:no-exception-where-python-raises", dict(wh, python=type(mexc).__name__)), True)
                break
            if outs["tgt"] is not None:
                e = outs["tgt"]
                return finish(Failure(f"C11:copy:follow-up-exception:{type(e).__name__}:{xdeps_frame(e)}",
                                      dict(wh, raised=repr(e)[:300])), True)
            d = diff_any(tgt.roots, tgt_model.roots)
            if d is not None:
                return finish(Failure("C11:copy:follow-up-contents-differ",
                                      dict(wh, location=d[0], real=d[1], expected=d[2])), True)
    except Exception as e:
        return finish(Failure(f"C11:copy:exception:{type(e).__name__}:{xdeps_frame(e)}", dict(where, raised=repr(e)[:300])), True)
    return finish(None)


def compare_src(src, src_model, where):
    got = task_structs(src.m)
    want = {str(src.ref(t)): strip_lit(E.unbuild(src.build(a))) for t, a in src_model.defs.items()}
    if set(got) != set(want) or any(not E.ast_equal(got[k], want[k]) for k in want):
        return Failure("C11:copy:source-manager-changed", where)
    d = W.diff_roots(src.roots, src_model.roots)
    if d is not None and not (src_model.k1 or src_model.k1_now() is not None):
        return Failure("C11:copy:source-data-changed", dict(where, location=d[0]))
    return None


# ------------------------------------------------------------------ entry points
def run(ctx):
    import time
    t0 = time.time()
    drive(ctx, expr_cases(), lambda c: exec_expr(ctx, c), ctx.n(1500, 12000), salt=1, label="C11 expr")
    ctx.stats.extra["seconds_expr"] = round(time.time() - t0, 1)
    t0 = time.time()
    opts = H.Opts(ftasks=False, knobs=False, maint=False, max_ops=25, math_builtins=False, divmod_item=True)
    drive(ctx, load_cases(opts), lambda c: exec_load(ctx, c), ctx.n(300, 2000), salt=2, label="C11 load")
    ctx.stats.extra["seconds_load"] = round(time.time() - t0, 1)
    t0 = time.time()
    opts2 = H.Opts(ftasks=False, knobs=False, maint=False, max_ops=14, math_builtins=False, divmod_item=True)
    drive(ctx, copy_cases(opts2), lambda c: exec_copy(ctx, c), ctx.n(300, 2000), salt=3, label="C11 copy")
    ctx.stats.extra["seconds_copy"] = round(time.time() - t0, 1)


def replay(ctx, case):
    k = case.get("kind")
    if k == "expr":
        return exec_expr(ctx, case)
    if k == "load":
        return exec_load(ctx, case)
    if k == "copy":
        return exec_copy(ctx, case)
    raise ValueError(k)
