"""C09 - solve() returns only on a matched point and otherwise restores the knobs.

Generated problems (linear / quadratic / trigonometric families, 1..4 knobs, 1..5 targets; consistent,
inconsistent (duplicated rows) and rank-deficient systems; targets reachable, on a limit, behind the
limits, far away or arbitrary; limits / tolerances / knob and target weights; n_steps_max 1..8; Broyden
off / on / every k; knobs and targets disabled after construction; transient or short persistent faults
of the user's action; restore_if_fail on / off; optional step()/clear_log() before solve()).
oracle
  solve() returns  =>  the user function, re-evaluated by the harness at the knob values left in the
                       container, is within tol_i of target_i for every ACTIVE target;
  solve() raises and restore_if_fail  =>  the container's knobs equal the knob vector of log row 0
                       (bit-exact when all knob weights are 1, within 4 ulp otherwise) and the active
                       flags of knobs and targets equal row 0's masks.
"""
import numpy as np
from hypothesis import strategies as st

from vlib import optfam as OF
from vlib import optgen as OG
from vlib.common import Failure, drive

RULE = ("one generated problem per case, optional prologue (step() / clear_log()), then solve(); non-trivial = at least "
        "one accepted Jacobian step before the outcome (log has a row with alpha >= 0); classes give the outcome and, for "
        "failures, the cause.  Distinct by problem digest.")
ASSUMPTIONS = [
    "'restored' is measured against iteration 0 of the log, as the property states (not against the state at solve() entry)",
    "any exception type counts as 'solve() raises' (RuntimeError no point within tolerance, ValueError limit / penalty "
    "increase, LinAlgError from a non-finite Broyden update, the injected action fault)",
    "if the action still fails while the restore itself re-evaluates the point, only the knob values and flags are required",
]
REQUIRED_CLASSES = ["outcome:returned", "outcome:raised-restored", "outcome:raised-not-restored(flag off)",
                    "cause:RuntimeError", "cause:ActionFault", "with-disabled-knobs",
                    "with-disabled-targets", "prologue:clear_log", "prologue:step", "prologue:step-then-disable",
                    "prologue:solved-before(success)", "broyden", "constructed-inactive-then-enabled"]


@st.composite
def cases(draw):
    spec = draw(OG.problems(faults=True, max_step="mixed" if draw(st.booleans()) else "none"))
    spec["prologue"] = draw(st.sampled_from(["none", "none", "step", "clear_log", "step+clear_log", "step-then-disable",
                                             "step-then-disable", "solved-before", "solved-before"]))
    # knobs / targets that are inactive when the optimizer is constructed (so log row 0 records them inactive) and are
    # enabled before solve(): a failing solve must put their VALUES back too, not only their flags
    n, m = spec["n"], spec["m"]
    spec["inactive_at_construction_vary"] = []
    spec["inactive_at_construction_targets"] = []
    if draw(st.integers(0, 3)) == 0 and n > 1:
        spec["inactive_at_construction_vary"] = [draw(st.integers(0, n - 1))]
        spec["disabled_vary"] = [i for i in spec["disabled_vary"] if i not in spec["inactive_at_construction_vary"]]
    if draw(st.integers(0, 5)) == 0 and m > 1:
        spec["inactive_at_construction_targets"] = [draw(st.integers(0, m - 1))]
        spec["disabled_targets"] = [i for i in spec["disabled_targets"] if i not in spec["inactive_at_construction_targets"]]
    spec["kind"] = "solve"
    return spec


def exec_case(ctx, spec):
    classes = {"solve", "family:" + spec["family"], "shape:" + spec["shape"], "targets:" + spec["target_mode"]}
    rendered = dict(OG.render(spec), prologue=spec["prologue"],
                    inactive_at_construction=[spec.get("inactive_at_construction_vary"), spec.get("inactive_at_construction_targets")])
    state = {"nt": False}

    def finish(f):
        ctx.stats.case(rendered, state["nt"], sorted(classes))
        return f
    try:
        b = OF.build(spec)
    except Exception as e:
        # e.g. the injected fault hits during construction: no optimizer, nothing to decide
        classes.add("construction-raises:" + type(e).__name__)
        return finish(None)
    opt = b.opt
    start_truth = {"knobs": OF.knob_vector(b).copy()}
    try:
        if spec.get("inactive_at_construction_vary") or spec.get("inactive_at_construction_targets"):
            classes.add("constructed-inactive-then-enabled")
            if spec.get("inactive_at_construction_vary"):
                opt.enable(vary=list(spec["inactive_at_construction_vary"]))
            if spec.get("inactive_at_construction_targets"):
                opt.enable(target=list(spec["inactive_at_construction_targets"]))
        if spec["prologue"] == "step-then-disable":
            # knobs move while active, are disabled afterwards: a later restore must still reset them
            classes.add("prologue:step-then-disable")
            opt.step(2)
        if spec["prologue"] == "solved-before":
            # an earlier successful solve from the same start, then back to iteration 0 with a tighter budget
            try:
                opt.solve()
                classes.add("prologue:solved-before(success)")
            except Exception:
                classes.add("prologue:solved-before(failed)")
            opt.reload(iteration=0)
            opt.n_steps_max = 1
        OG.apply_disabled(b)
        if spec["disabled_vary"]:
            classes.add("with-disabled-knobs")
        if spec["disabled_targets"]:
            classes.add("with-disabled-targets")
        if "step" in spec["prologue"]:
            classes.add("prologue:step")
            opt.step(1)
        if "clear_log" in spec["prologue"]:
            classes.add("prologue:clear_log")
            opt.clear_log()
            start_truth["knobs"] = OF.knob_vector(b).copy()
    except Exception as e:
        classes.add("prologue-raises:" + type(e).__name__)
        return finish(None)
    if spec["broyden"]:
        classes.add("broyden")
    if spec.get("rcond") is not None or spec.get("sing_val_cutoff") is not None:
        classes.add("solve(rcond / sing_val_cutoff)")
    if spec.get("check_limits") is False:
        classes.add("check_limits=False")
    # what iteration 0 of the log must hold, from the harness' own record: the knob values in the container when row 0
    # was written (construction, or the clear_log() of the prologue - nothing moves the knobs between that and here)
    row0_truth = start_truth["knobs"]
    row0 = {"knobs": [float(v) for v in opt._log["knobs"][0]], "vary_active": opt._log["vary_active"][0],
            "target_active": opt._log["target_active"][0]}
    n_rows_before = len(opt._log["penalty"])
    exc = None
    try:
        opt.solve(broyden=spec["broyden"], rcond=spec.get("rcond"), sing_val_cutoff=spec.get("sing_val_cutoff"))
    except Exception as e:
        exc = e
    alphas = list(opt._log["alpha"][n_rows_before:])
    if any(a is not None and a >= 0 for a in alphas):
        state["nt"] = True
    knobs = OF.knob_vector(b)
    where = dict(rendered, knobs_after=[float(v) for v in knobs])
    if exc is None:
        classes.add("outcome:returned")
        res = OF.residuals(b)
        active = [bool(t.active) for t in opt.targets]
        bad = [i for i in range(spec["m"]) if active[i] and not abs(res[i]) < spec["tols"][i]]
        if bad:
            return finish(Failure("C09:returned-on-unmatched-point",
                                  dict(where, unmatched_targets=bad, residuals=[float(r) for r in res], active=active)))
        return finish(None)
    classes.add("cause:" + type(exc).__name__)
    if not spec["restore_if_fail"]:
        classes.add("outcome:raised-not-restored(flag off)")
        return finish(None)
    classes.add("outcome:raised-restored")
    want = np.array(row0["knobs"])
    tol = OF.ulp_tol(want, spec["vweights"])
    if np.any(np.abs(knobs - want) > tol):
        return finish(Failure("C09:knobs-not-restored-to-iteration-0",
                              dict(where, iteration_0=row0["knobs"], raised=repr(exc)[:200])))
    if np.any(np.abs(knobs - row0_truth) > OF.ulp_tol(row0_truth, spec["vweights"])):
        return finish(Failure("C09:knobs-not-restored-to-iteration-0:log-row-0-is-not-the-recorded-start",
                              dict(where, iteration_0_in_log=row0["knobs"], knobs_when_row_0_was_written=[float(v) for v in row0_truth],
                                   raised=repr(exc)[:200])))
    va = "".join("y" if v.active else "n" for v in opt.vary)
    ta = "".join("y" if t.active else "n" for t in opt.targets)
    if va != row0["vary_active"] or ta != row0["target_active"]:
        return finish(Failure("C09:active-flags-not-restored-to-iteration-0",
                              dict(where, vary_active=va, target_active=ta, iteration_0=row0, raised=repr(exc)[:200])))
    return finish(None)


def run(ctx):
    drive(ctx, cases(), lambda c: exec_case(ctx, c), ctx.n(900, 6000), salt=1, label="C09")


def replay(ctx, case):
    return exec_case(ctx, case)
