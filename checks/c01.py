"""C01 - expression-defined locations always equal their definition on current data.

histories  Hypothesis-generated assignment histories over nested dict / list / attribute
           containers (vlib.histgen), compared after EVERY operation with the pull model
shapes     deep / wide graphs (chains to 5000, fan-in trees, diamond ladders, fan-out 2000)
           defined in a drawn permutation, then leaf assignments and mid-chain re-definitions
"""
import sys
import traceback

from hypothesis import strategies as st

from vlib import expr as E
from vlib import world as W
from vlib import histgen as H
from vlib.common import Failure, drive, guarded

RULE = ("histories: 3..30 operations (assign value / expression / in-place / unregister / container "
        "overwrite / function task / linear knob / maintenance) generated with the model alongside; after "
        "every operation ALL locations are compared with a pull-model re-evaluation in true data-flow order. "
        "Non-trivial = some value assignment in the history triggers >=2 tasks of which one feeds another "
        "(true data flow), distinct by history digest.  shapes: chains / trees / ladders / fan-out defined in "
        "a drawn permutation; non-trivial = depth or width >= 50.")
ASSUMPTIONS = [
    "no raw mutation behind the manager, no aliasing paths, no overwrite of a container holding a defined member",
    "histories in the known-finding class K1 (true data-flow edge inside a cycle of the manager's documented "
    "ordering relation) are excluded by construction and counted; value assertions stop if one is replayed",
    "zeros of either sign are equal values (Cython fast-path artefact, see DESIGN 9)",
]
K1_SIG = "C01:K1-ordering-cycle-through-shared-container"


def xdeps_frame(exc):
    """innermost frame inside the xdeps package -> 'module.function'"""
    name = "?"
    for fs in traceback.extract_tb(exc.__traceback__):
        if "/xdeps/" in fs.filename or fs.filename.endswith("refs.py"):
            name = fs.name
    return name


def exec_history(ctx, case, observer=None):
    """-> Failure | None.  Also fills statistics."""
    init = H.dec_init(case)
    model = W.Model(init)
    real = W.Real(init)
    classes = set()
    nontrivial = False
    max_depth = 0
    for i, op in enumerate(case["ops"]):
        k = op["op"]
        # ---- classification before applying
        if k in ("setv", "inplace", "setc"):
            key = W.tuple_loc(op["loc"])
            Lset, Uset, tasks, true_g, doc_g = model.trigger_sets(key)
            if k != "inplace" or key not in model.defs:
                if len(Lset) >= 2 and any(true_g[a] & Lset for a in Lset):
                    nontrivial = True
                if Lset:
                    classes.add("assign-with-dependants")
            if Lset != Uset:
                classes.add("sibling-trigger(L<U)")
        if k == "sete":
            key = W.tuple_loc(op["loc"])
            if any(W.related(key, r) for t in model.tasks() for r in t.reads):
                classes.add("consumer-before-producer")
            if key in model.defs:
                classes.add("re-definition")
            if len(key[1]) > 1:
                classes.add("nested-target")
            if any(len(r[1]) > 1 for r in E.reads(op["ast"])):
                classes.add("nested-read")
        elif k == "setv":
            if W.tuple_loc(op["loc"]) in model.defs:
                classes.add("definition-replaced-by-value")
        elif k == "inplace":
            key = W.tuple_loc(op["loc"])
            classes.add("inplace-on-defined" if key in model.defs else
                        ("inplace-plain-number" if op["operand"][0] == "lit" else "inplace-plain-expr"))
        elif k == "unreg":
            classes.add("removal")
        elif k == "setc":
            classes.add("container-overwrite")
        elif k == "regft":
            classes.add("function-task")
        elif k == "regknob":
            classes.add("linear-knob")
        elif k == "unregtask":
            classes.add("task-unregistered")
        else:
            classes.add("maint:" + k)
        # ---- apply to both
        mexc = rexc = None
        try:
            model.apply(op)
        except Exception as e:
            mexc = e
        try:
            real.apply(op)
        except RecursionError as e:
            rexc = e
        except Exception as e:
            rexc = e
        step = {"step": i, "op": W.render_op(op)}
        if mexc is not None:
            classes.add("python-raises")
            if rexc is None and not model.k1:
                ctx.stats.case({"history": W.render_case(case)}, True, ["hist"] + sorted(classes))
                return Failure("C01:no-exception-where-python-raises",
                               dict(step, python=type(mexc).__name__))
            break
        if rexc is not None:
            if model.k1:
                break
            ctx.stats.case({"history": W.render_case(case)}, True, ["hist"] + sorted(classes))
            return Failure(f"C01:exception:{type(rexc).__name__}:{xdeps_frame(rexc)}",
                           dict(step, raised=repr(rexc)[:300], history=W.render_case(case)[:i + 1]))
        d = W.diff_roots(real.roots, model.roots)
        if d is not None:
            ctx.stats.case({"history": W.render_case(case)}, True, ["hist"] + sorted(classes))
            if model.k1:
                return Failure(K1_SIG, dict(step, location=d[0], real=d[1], expected=d[2],
                                            history=W.render_case(case)[:i + 1]))
            return Failure("C01:stale-or-wrong-value",
                           dict(step, location=d[0], real=d[1], expected=d[2],
                                history=W.render_case(case)[:i + 1]))
        if observer is not None:
            f = observer(i, op, model, real)
            if f is not None:
                return f
    if model.k1:
        classes.add("K1-class(replayed)")
    # depth bucket of the final true data-flow graph
    tasks, true_g, _ = model.graphs()
    depth = longest_path(true_g)
    classes.add("depth>=3" if depth >= 3 else f"depth={depth}")
    for why, n in case.get("excluded", {}).items():
        ctx.stats.excluded[why] += n
    ctx.stats.case({"history": W.render_case(case)}, nontrivial, ["hist"] + sorted(classes))
    return None


def longest_path(g):
    memo = {}

    def lp(x, stack=()):
        if x in memo:
            return memo[x]
        if x in stack:
            return 0
        memo[x] = 1 + max([lp(y, stack + (x,)) for y in g[x]] or [0])
        return memo[x]
    return max([lp(x) for x in g] or [0])


# --------------------------------------------------------------------- shapes
def shape_case(case):
    """case: {"shape", "n", "perm_seed", "assign": [...]}; flat dict d with keys v0..vN.
    -> Failure|None"""
    import random
    import xdeps
    shape, n = case["shape"], case["n"]
    rnd = random.Random(case["perm_seed"])      # a pure function of the drawn seed
    # definitions: node i -> ("expr", reads, fn)
    defs = {}
    if shape == "chain":            # v[i] = v[i-1] + 1
        nodes = n + 1
        for i in range(1, nodes):
            defs[i] = ("add1", [i - 1])
        leaves = [0]
    elif shape == "tree":           # binary fan-in: node i reads 2i+1, 2i+2 ; leaves at the bottom
        nodes = n
        leaves = []
        for i in range(nodes):
            a, b = 2 * i + 1, 2 * i + 2
            if b < nodes:
                defs[i] = ("sum", [a, b])
            else:
                leaves.append(i)
    elif shape == "ladder":         # diamonds: a[i+1] = l[i]+r[i]; l[i]=a[i]*0.5 ; r[i]=a[i]-l... (3 nodes/level)
        nodes = 3 * n + 1
        for lvl in range(n):
            a = 3 * lvl
            defs[a + 1] = ("half", [a])
            defs[a + 2] = ("neg", [a])
            defs[a + 3] = ("sum", [a + 1, a + 2])
        leaves = [0]
    elif shape == "fanout":         # v[i] = v0 * i
        nodes = n + 1
        for i in range(1, nodes):
            defs[i] = ("mulc", [0])
        leaves = [0]
    else:
        raise ValueError(shape)
    d = {f"v{i}": float(i % 7) for i in range(nodes)}
    m = xdeps.Manager()
    r = m.ref(d, "d")

    def value(i, vals):
        kind, reads = defs[i]
        if kind == "add1":
            return vals[reads[0]] + 1
        if kind == "sum":
            return vals[reads[0]] + vals[reads[1]]
        if kind == "half":
            return vals[reads[0]] * 0.5
        if kind == "neg":
            return -vals[reads[0]]
        if kind == "mulc":
            return vals[reads[0]] * (i % 5)
        raise ValueError

    def expr(i):
        kind, reads = defs[i]
        R = [r[f"v{j}"] for j in reads]
        if kind == "add1":
            return R[0] + 1
        if kind == "sum":
            return R[0] + R[1]
        if kind == "half":
            return R[0] * 0.5
        if kind == "neg":
            return -R[0]
        if kind == "mulc":
            return R[0] * (i % 5)

    order = sorted(defs)
    rnd.shuffle(order)              # consumer-before-producer is the norm

    def expected():
        vals = {}
        todo = sorted(defs)         # node numbering is topological except for the tree (reverse)
        if shape == "tree":
            todo = sorted(defs, reverse=True)
        for i in range(nodes):
            if i not in defs:
                vals[i] = d_model[i]
        for i in todo:
            vals[i] = value(i, vals)
        return vals

    d_model = {i: float(i % 7) for i in range(nodes)}
    step = "define"
    try:
        for i in order:
            r[f"v{i}"] = expr(i)
        script = [("define-all", None)]
        for a in case["assign"]:
            if a[0] == "leaf":
                leaf = leaves[a[1] % len(leaves)]
                script.append(("leaf", leaf, float(a[2])))
            else:
                script.append(("redef", sorted(defs)[a[1] % len(defs)], float(a[2])))
        for s in script:
            step = s
            if s[0] == "leaf":
                r[f"v{s[1]}"] = s[2]
                d_model[s[1]] = s[2]
            elif s[0] == "redef":
                # replace a mid-graph definition by a value
                i = s[1]
                r[f"v{i}"] = s[2]
                defs.pop(i)
                d_model[i] = s[2]
            vals = expected()
            for i in range(nodes):
                got = d[f"v{i}"]
                if not E.same(float(got), float(vals[i])):
                    return Failure("C01:shape:stale-or-wrong-value",
                                   {"shape": shape, "n": n, "step": repr(step), "node": f"v{i}",
                                    "real": repr(got), "expected": repr(vals[i])})
    except RecursionError as e:
        return Failure("C01:exception:RecursionError:" + xdeps_frame(e),
                       {"shape": shape, "n": n, "step": repr(step)})
    except Exception as e:
        return Failure(f"C01:exception:{type(e).__name__}:{xdeps_frame(e)}",
                       {"shape": shape, "n": n, "step": repr(step), "raised": repr(e)[:200]})
    return None


def run_shapes(ctx):
    big = {"chain": [1500, 5000], "tree": [2047, 4095], "ladder": [400, 1500], "fanout": [2000]}
    sizes_quick = {"chain": [10, 120, 1500], "tree": [15, 255, 2047], "ladder": [5, 60, 400], "fanout": [30, 2000]}
    sizes = sizes_quick if ctx.quick else {k: sizes_quick[k] + big[k] for k in big}
    todo = []
    for shape, ns in sorted(sizes.items()):
        for n in sorted(set(ns)):
            for rep in range(1 if ctx.quick else 2):
                todo.append((shape, n, rep))
    for i, (shape, n, rep) in enumerate(todo):
        if i % ctx.nshards != ctx.shard:
            continue
        seed = ctx.derived_seed(1000 + i)
        case = {"kind": "shape", "shape": shape, "n": n, "perm_seed": seed,
                "assign": [["leaf", seed % 97, 3.5], ["redef", seed % 89, -2.0], ["leaf", seed % 83, 11.0]]}
        f, timed_out = guarded(ctx, shape_case, case, label=f"shape case ({shape}, n={n})")
        if timed_out:
            continue
        ctx.stats.case({"shape": shape, "n": n, "perm_seed": seed, "assign": case["assign"]}, n >= 50,
                       ["shape", f"shape:{shape}", "shape:n>=1000" if n >= 1000 else "shape:n<1000"])
        if f:
            ctx.fail(f, case)


# --------------------------------------------------------------------- entry points
def run(ctx):
    run_shapes(ctx)
    opts = H.Opts(fresh=True)
    n = ctx.n(300, 2500)

    def body(case):
        f = exec_history(ctx, case)
        if f is not None and f.case is None:
            f.case = dict(case, kind="history")
        return f
    drive(ctx, H.histories(opts), body, n, salt=1, label="C01 histories")
    # a flat-only profile (no nesting: the manager's documented relation is exact there)
    flat = H.Opts(nested=False, setc=False, max_ops=25)
    drive(ctx, H.histories(flat), body, max(20, n // 3), salt=2, label="C01 flat histories")
    # long histories (the world is small, so these are mostly re-definitions, removals and re-registrations of the same
    # locations: what accumulates in the indices over a long session); a few in the quick tier, many in the thorough one
    long = H.Opts(min_ops=40, max_ops=ctx.n(60, 120), fresh=True)
    drive(ctx, H.histories(long), body, ctx.n(12, 250), salt=3, label="C01 long histories")


def replay(ctx, case):
    if case.get("kind") == "shape":
        return shape_case(case)
    return exec_history(ctx, case)
