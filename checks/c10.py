"""C10 - accepted optimizer iterates respect limits, max_step and disabled knobs.

Generated problems whose unconstrained solution mostly lies outside the limits or far away, per-knob limits
and max_step values (different per knob, raw steps exceeding several at once), unit and arbitrary positive
knob weights, every kind of disabled subset: persistently through disable(), or only for one call through
step(disable_target=..., disable_vary=..., disable_vary_name=...).  A plan of 1..4 step() calls is executed.
oracle (after every call, over the whole log)
  limits     every log row and the container: lo <= knob <= hi   (exact for weight 1, 4 ulp otherwise)
  max_step   every row with alpha >= 0 vs its predecessor: |knob_i - previous_i| <= max_step_i  (+ 2 ulp of
             the knob for weight 1 - the subtraction x - step rounds - , 8 ulp otherwise)
  disabled   every write the logging container saw to a disabled knob during the call carries the value the
             knob had before the call (it is never changed)
  temporary  after a call with temporary disable arguments the named knobs / targets are active again
  influence  (metamorphic) a twin problem in which every disabled target is replaced by another function,
             value and weight produces a bit-identical knob trajectory and identical penalties
"""
import numpy as np
from hypothesis import strategies as st

from vlib import optfam as OF
from vlib import optgen as OG
from vlib.common import Failure, drive

RULE = ("problem + plan of 1..4 step() calls (1..4 Jacobian steps each, take_best on/off, optional temporary disable "
        "arguments); non-trivial = some knob sits on a limit after a step, or a max_step clipped the raw Newton step, or a "
        "knob / target is disabled; classes per mechanism.  Distinct by case digest.")
ASSUMPTIONS = [
    "start points lie inside the limits; temporary disable arguments name only knobs / targets that are active",
    "|delta| <= max_step is checked with 2 ulp (unit weight) / 8 ulp (other weights) of the knob magnitude: the accepted "
    "point is computed as x - step and rounds",
    "a call that raises (limit check, penalty increase) is not an accepted iterate; rows logged before it are still checked",
]
REQUIRED_CLASSES = ["mech:limit-hit", "mech:max_step-clips", "mech:max_step-clips-several", "mech:disabled-knob(persistent)",
                    "mech:disabled-knob(temporary)", "mech:disabled-target(persistent)", "mech:disabled-target(temporary)",
                    "mech:disable_vary_name", "weights:unit", "weights:other", "metamorphic-twin", "targets:optimize_log",
                    "mech:disabled-optimize_log-target"]


@st.composite
def cases(draw):
    spec = draw(OG.problems(limits="always", max_step=draw(st.sampled_from(["mixed", "all", "all", "none"])),
                            weights=draw(st.sampled_from(["unit", "mixed"])),
                            target_modes=["outside", "outside", "far", "far", "reachable", "on-limit", "arbitrary"],
                            families=("lin", "quad", "trig", "exp")))
    n, m = spec["n"], spec["m"]
    plan = []
    for _ in range(draw(st.integers(1, 4))):
        call = {"n": draw(st.integers(1, 4)), "take_best": draw(st.booleans()), "dt": None, "dv": None, "dvn": None}
        if draw(st.integers(0, 2)) == 0:
            act_t = [i for i in range(m) if i not in spec["disabled_targets"]]
            act_v = [i for i in range(n) if i not in spec["disabled_vary"]]
            kind = draw(st.sampled_from(["dt", "dv", "dvn", "dt+dv"]))
            if "dt" in kind and len(act_t) > 1:
                call["dt"] = [draw(st.sampled_from(act_t))]
                if draw(st.booleans()):
                    call["dt"] = [f"t{call['dt'][0]}"]
            if kind in ("dv", "dt+dv") and len(act_v) > 1:
                i = draw(st.sampled_from(act_v))
                call["dv"] = [i] if draw(st.booleans()) else [f"v{i}"]
            if kind == "dvn" and len(act_v) > 1:
                call["dvn"] = [f"k{draw(st.sampled_from(act_v))}"]
        plan.append(call)
    spec["plan"] = plan
    spec["twin"] = {"scale": draw(st.sampled_from([2.0, -3.0, 0.0, 1e3])), "shift": draw(st.floats(-5, 5)),
                    "value": draw(st.floats(-5, 5))}
    spec["kind"] = "steps"
    return spec


def idx_of(entry):
    return int(entry[1:]) if isinstance(entry, str) else int(entry)


def run_plan(b, spec, observer=None):
    """execute the plan; -> (exception or None, index of the call that raised)"""
    OG.apply_disabled(b)
    b.rows_at_disable = len(b.opt._log["penalty"])
    for ci, call in enumerate(spec["plan"]):
        kw = {}
        if call["dt"] is not None:
            kw["disable_target"] = list(call["dt"])
        if call["dv"] is not None:
            kw["disable_vary"] = list(call["dv"])
        if call["dvn"] is not None:
            kw["disable_vary_name"] = list(call["dvn"])
        before = {nm: b.kd[nm] for nm in b.names}
        w0 = len(b.kd.writes)
        try:
            b.opt.step(call["n"], take_best=call["take_best"], broyden=spec["broyden"], rcond=spec.get("rcond"),
                       sing_val_cutoff=spec.get("sing_val_cutoff"), **kw)
        except Exception as e:
            if observer:
                observer(ci, call, before, b.kd.writes[w0:], e)
            return e, ci
        if observer:
            observer(ci, call, before, b.kd.writes[w0:], None)
    return None, None


def exec_case(ctx, spec):
    n, m = spec["n"], spec["m"]
    classes = {"steps", "weights:" + ("unit" if all(w == 1.0 for w in spec["vweights"]) else "other")}
    if spec.get("check_limits") is False:
        classes.add("check_limits=False")
    if spec.get("rcond") is not None or spec.get("sing_val_cutoff") is not None:
        classes.add("step(rcond / sing_val_cutoff)")
    rendered = dict(OG.render(spec), plan=spec["plan"])
    state = {"nt": False, "fail": None}

    def finish(f):
        ctx.stats.case(rendered, state["nt"], sorted(classes))
        return f
    try:
        b = OF.build(spec)
    except Exception as e:
        classes.add("construction-raises:" + type(e).__name__)
        return finish(None)
    wv = np.array(spec["vweights"])
    lims = np.array(spec["limits"], dtype=float)
    mx = spec["max_step"] or [None] * n
    if spec["disabled_vary"]:
        classes.add("mech:disabled-knob(persistent)")
        state["nt"] = True
    if spec["disabled_targets"]:
        classes.add("mech:disabled-target(persistent)")
        state["nt"] = True
    if spec.get("log_targets"):
        classes.add("targets:optimize_log")
        if set(spec["log_targets"]) & set(spec["disabled_targets"]):
            classes.add("mech:disabled-optimize_log-target")

    def observer(ci, call, before, writes, exc):
        if state["fail"] is not None:
            return
        where = dict(rendered, call=ci)
        if exc is not None and isinstance(exc, TypeError):
            state["fail"] = Failure(f"C10:step-raises-TypeError" + (":temporary-disable" if (call["dt"] or call["dv"] or call["dvn"]) else ""),
                                    dict(where, raised=repr(exc)[:200]))
            return
        disabled = set(spec["disabled_vary"])
        temp_v = set()
        if call["dv"] is not None:
            temp_v |= {idx_of(x) for x in call["dv"]}
            classes.add("mech:disabled-knob(temporary)")
        if call["dvn"] is not None:
            temp_v |= {idx_of(x) for x in call["dvn"]}
            classes.add("mech:disabled-knob(temporary)")
            classes.add("mech:disable_vary_name")
        if call["dt"] is not None:
            classes.add("mech:disabled-target(temporary)")
        if temp_v or call["dt"] is not None:
            state["nt"] = True
        for i in sorted(disabled | temp_v):
            nm = b.names[i]
            for (wn, wval) in writes:
                if wn == nm and not (wval == before[nm]):
                    state["fail"] = Failure("C10:disabled-knob-changed",
                                            dict(where, knob=nm, before=before[nm], written=wval,
                                                 how="temporary" if i in temp_v else "persistent"))
                    return
        if exc is None:
            # temporaries are active again
            for i in temp_v:
                if not b.opt.vary[i].active:
                    state["fail"] = Failure("C10:temporarily-disabled-knob-not-re-enabled", dict(where, knob=b.names[i]))
                    return
            if call["dt"] is not None:
                for x in call["dt"]:
                    if not b.opt.targets[idx_of(x)].active:
                        state["fail"] = Failure("C10:temporarily-disabled-target-not-re-enabled", dict(where, target=idx_of(x)))
                        return
            for i in disabled:
                if b.opt.vary[i].active:
                    state["fail"] = Failure("C10:persistently-disabled-knob-re-enabled", dict(where, knob=b.names[i]))
                    return

    exc, at = run_plan(b, spec, observer)
    if state["fail"] is not None:
        return finish(state["fail"])
    if exc is not None:
        classes.add("call-raises:" + type(exc).__name__)
    # ---- whole log: limits and max_step
    knobs = np.array(b.opt._log["knobs"], dtype=float)
    alphas = b.opt._log["alpha"]
    final = OF.knob_vector(b)
    rows = list(knobs) + [final]
    for ri, row in enumerate(rows):
        tol = OF.ulp_tol(row, wv)
        low, high = row < lims[:, 0] - tol, row > lims[:, 1] + tol
        if np.any(low | high):
            i = int(np.where(low | high)[0][0])
            return finish(Failure("C10:iterate-outside-limits",
                                  dict(rendered, row=("container" if ri == len(rows) - 1 else ri), knob=b.names[i],
                                       value=float(row[i]), limits=spec["limits"][i], weight=spec["vweights"][i])))
        if np.any((row == lims[:, 0]) | (row == lims[:, 1])) and ri > 0:
            classes.add("mech:limit-hit")
            state["nt"] = True
    hl = b.opt._log["hit_limits"]
    if any("y" in h for h in hl):
        classes.add("mech:limit-hit")
        state["nt"] = True
    for ri in range(1, len(knobs)):
        a = alphas[ri]
        if a is None or a < 0:
            continue
        d = np.abs(knobs[ri] - knobs[ri - 1])
        nclip = 0
        for i in range(n):
            if mx[i] is None:
                continue
            mag = max(abs(knobs[ri][i]), abs(knobs[ri - 1][i]), 1e-300)
            tol = (2 if wv[i] == 1.0 else 8) * np.spacing(mag)
            if d[i] > mx[i] + tol:
                return finish(Failure("C10:step-exceeds-max_step" + ("" if wv[i] == 1.0 else ":weighted-knob"),
                                      dict(rendered, row=ri, knob=b.names[i], moved=float(d[i]), max_step_of_knob=mx[i],
                                           weight=spec["vweights"][i], alpha=a,
                                           all_moves=[float(x) for x in d])))
            if a == 0 and d[i] >= mx[i] * 0.999:
                nclip += 1
        if nclip:
            classes.add("mech:max_step-clips")
            state["nt"] = True
        # raw step would have exceeded several: detect through the last raw step if available
    if spec["max_step"] and hasattr(b.opt.solver, "_last_jac_svd"):
        pass
    # several limits exceeded at once: evaluate the raw (unclipped) Newton step of the first Jacobian step
    try:
        ms = [v for v in mx if v is not None]
        if len(ms) >= 2:
            b0 = OF.build(dict(spec, max_step=None))
            OG.apply_disabled(b0)
            b0.opt.step(1, take_best=False)
            raw = np.abs(np.array(b0.opt._log["knobs"][-1], dtype=float) - np.array(b0.opt._log["knobs"][-2], dtype=float))
            if sum(1 for i in range(n) if mx[i] is not None and raw[i] > mx[i]) >= 2:
                classes.add("mech:max_step-clips-several")
    except Exception:
        pass
    # ---- metamorphic twin: replace every (persistently or temporarily) disabled target
    dis_t = set(spec["disabled_targets"])
    temp_all = set()
    for call in spec["plan"]:
        if call["dt"] is not None:
            temp_all |= {idx_of(x) for x in call["dt"]}
    if dis_t and exc is None:
        classes.add("metamorphic-twin")
        tw = spec["twin"]
        repl = {i: (tw["scale"], tw["shift"], tw["value"]) for i in dis_t}
        try:
            b2 = OF.build(spec, replace_disabled_target=repl)
            exc2, _ = run_plan(b2, spec)
        except Exception as e:
            return finish(Failure(f"C10:twin-raises:{type(e).__name__}", dict(rendered, raised=repr(e)[:200])))
        if exc2 is not None:
            return finish(Failure(f"C10:disabled-target-influences-outcome:{type(exc2).__name__}",
                                  dict(rendered, twin=tw, raised=repr(exc2)[:200])))
        k1, k2 = np.array(b.opt._log["knobs"], dtype=float), np.array(b2.opt._log["knobs"], dtype=float)
        if k1.shape != k2.shape or not np.array_equal(k1, k2):
            r = 0
            if k1.shape == k2.shape:
                r = int(np.where(np.any(k1 != k2, axis=1))[0][0])
            return finish(Failure("C10:disabled-target-influences-steps",
                                  dict(rendered, twin=tw, first_differing_row=r,
                                       original=k1[r].tolist() if r < len(k1) else None,
                                       with_replaced_target=k2[r].tolist() if r < len(k2) else None)))
        r0 = b.rows_at_disable      # earlier rows were logged while the target was still active
        p1, p2 = np.array(b.opt._log["penalty"])[r0:], np.array(b2.opt._log["penalty"])[r0:]
        if not np.array_equal(p1, p2):
            return finish(Failure("C10:disabled-target-influences-penalty", dict(rendered, twin=tw)))
    return finish(None)


def run(ctx):
    drive(ctx, cases(), lambda c: exec_case(ctx, c), ctx.n(900, 6000), salt=1, label="C10")


def replay(ctx, case):
    return exec_case(ctx, case)
