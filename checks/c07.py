"""C07 - table rows addressed by name resolve against the CURRENT index column.

exhaustive  every index column over the alphabet {a, b, ab} up to length 5 (364 tables) x every row
            form (name present / absent, count None / 0 / 1 / 2 / 4 / -1 / -2 / -5, offsets landing inside
            the table, string and tuple spelling) through table[col, row], rows.get_index and table // row;
            then the same after ONE single-cell assignment to the index column (every position x every
            new name, by position and by name) - the smallest update/lookup interleavings;
scripts     Hypothesis-generated scripts over one table (0..8 rows, one in five 9..64 rows, index 'name' or another column):
            whole index-column assignment (item and attribute syntax), single-cell assignment to the index
            column by position / by name, numeric cell assignment by name, new column, column deletion,
            interleaved with lookups (read, write-by-name, get_index, //) and label checks.
oracle      a linear scan of the model's current name list (vlib.tableref.ref_row): same position / same
            cell / KeyError exactly when there is no such occurrence; every label of
            cols.get_index_unique() resolves to its own row and is what show() prints in the index column.
"""
import itertools

import numpy as np
from hypothesis import strategies as st

from vlib import tableref as TR
from vlib.common import Failure, drive

RULE = ("exhaustive: 364 index columns x row forms, before and after one cell assignment to the index column; scripts: "
        "3..25 steps mixing the mutations the quantifier lists with lookups.  Non-trivial = a lookup executed after >= 1 "
        "mutation of the index column (distinct by (index column, mutation, row form) resp. script digest).")
ASSUMPTIONS = [
    "row names avoid the separator strings '::', '<<', '>>' (whole-string-first lookup is then equivalent to the documented parse)",
    "offsets that leave the table are not generated (numpy wrap-around is not specified by the property)",
    "only API mutations the quantifier lists; _append_row/_update and direct numpy writes are not used",
]
ENGINE = "enumeration + hypothesis"
ALPHA = ["a", "b", "ab"]
ABSENT = "zz"
COUNTS = [None, 0, 1, 2, 4, -1, -2, -5]
REQUIRED_CLASSES = ["cell-assign-by-negative-position", "name-with-single-separator-character", "after:cell-assign-by-position", "after:cell-assign-by-name", "after:whole-column:item",
                    "after:whole-column:attr", "form:negative-count", "form:offset", "form:absent-name", "labels", "rows>=17"]


def make_table(names, index="name", extra=None):
    from xdeps.table import Table
    n = len(names)
    data = {index: np.array(list(names), dtype=str) if n else np.array([], dtype=str),
            "v": np.arange(n, dtype=float) * 1.5, "k": np.arange(n, dtype=int) * 10}
    if extra:
        data.update(extra)
    return Table(data, index=index)


def specs_for(names):
    """all row specs (name, count, offset) of the small scope whose offset lands inside the table"""
    n = len(names)
    out = []
    for name in ALPHA + [ABSENT]:
        for count in COUNTS:
            try:
                base = TR.ref_row(names, [name, count, 0])
            except KeyError:
                out.append([name, count, 0])
                continue
            for off in (0, -1, 1, 2):
                if 0 <= base + off < n:
                    out.append([name, count, off])
    return out


def do_lookup(t, api, form, spec, col="v", index="name"):
    """-> ('ok', position or value) | ('exc', type name)"""
    row = TR.spec_str(spec) if form == "str" else TR.spec_tuple(spec)
    try:
        if api == "get_index":
            return ("pos", int(t.rows.get_index(row)))
        if api == "floordiv":
            return ("pos", int(t // row))
        if api == "getitem":
            return ("val", t[col, row])
        raise ValueError(api)
    except Exception as e:
        return ("exc", type(e).__name__)


def expect_lookup(names, colvals, api, spec):
    try:
        pos = TR.ref_row(names, spec)
    except KeyError:
        return ("exc", "KeyError")
    if api == "getitem":
        return ("val", colvals[pos])
    return ("pos", pos)


def same_result(got, want):
    if got[0] != want[0]:
        return False
    if got[0] == "val":
        return bool(got[1] == want[1])
    return got[1] == want[1]


def classes_of(spec):
    out = []
    if spec[1] is not None and spec[1] < 0:
        out.append("form:negative-count")
    if spec[2] != 0:
        out.append("form:offset")
    if spec[0] == ABSENT:
        out.append("form:absent-name")
    return out


def check_labels(t, names, index, where):
    labels = list(t.cols.get_index_unique())
    want = TR.unique_labels(names)
    if labels != want:
        return Failure("C07:unique-labels-differ", dict(where, got=labels, expected=want))
    for i, lab in enumerate(labels):
        got = do_lookup(t, "get_index", "str", [lab, None, 0])
        if got != ("pos", i):
            # a label 'n::k' is passed as the whole string
            try:
                p = t.rows.get_index(lab)
            except Exception as e:
                return Failure("C07:unique-label-does-not-resolve", dict(where, label=lab, row=i, raised=type(e).__name__))
            if p != i:
                return Failure("C07:unique-label-resolves-to-other-row", dict(where, label=lab, row=i, got=int(p)))
        try:
            v = t["k", lab]
        except Exception as e:
            return Failure("C07:unique-label-does-not-resolve", dict(where, label=lab, row=i, raised=type(e).__name__))
        if v != t._data["k"][i]:
            return Failure("C07:unique-label-resolves-to-other-row", dict(where, label=lab, row=i))
    if len(names):
        text = t.show(output=str, maxwidth="full")
        lines = text.split("\n")[1:]
        shown = [ln.split()[0] if ln.split() else "" for ln in lines]
        if shown != want:
            return Failure("C07:show-prints-other-labels", dict(where, shown=shown, expected=want))
    return None


# ------------------------------------------------------------------ exhaustive scope
def all_tables():
    for n in range(0, 6):
        for names in itertools.product(ALPHA, repeat=n):
            yield list(names)


def run_exhaustive(ctx):
    tables = list(all_tables())
    full = True
    for ti, names in enumerate(tables):
        if ti % ctx.nshards != ctx.shard:
            continue
        # ---- no mutation
        t = make_table(names)
        f = lookups_block(ctx, t, names, "none", None)
        if f:
            ctx.fail(f, f.case)
            full = False
            continue
        f = check_labels(t, names, "name", {"names": names})
        ctx.stats.case({"names": names, "check": "labels"}, False, ["exh", "labels"])
        if f:
            ctx.fail(f, {"kind": "exh", "names": names, "mutation": None, "lookup": None})
        # ---- one cell assignment to the index column, by position and by name
        for pos in range(len(names)):
            for new in ALPHA + ["c"]:
                if new == names[pos]:
                    continue
                for how in ("pos", "name"):
                    t = make_table(names)
                    mut = {"how": how, "pos": pos, "new": new}
                    # warm the lookup cache first (the interleaving that matters)
                    t.rows.get_index(names[0])
                    if how == "pos":
                        t["name", pos] = new
                    else:
                        lab = TR.unique_labels(names)[pos]
                        t["name", lab] = new
                    names2 = list(names)
                    names2[pos] = new
                    f = lookups_block(ctx, t, names2, "cell-assign-by-" + ("position" if how == "pos" else "name"), mut,
                                      orig=names, thin=True)
                    if f:
                        ctx.fail(f, f.case)
                        full = False
                        break
                else:
                    continue
                break
            else:
                continue
            break
    ctx.stats.exhaustive["index columns over {a,b,ab} up to length 5 x row forms x {no mutation, one index-cell assignment}"] = full


def lookups_block(ctx, t, names, after, mut, orig=None, thin=False):
    colv = list(t._data["v"])
    specs = specs_for(names)
    if thin:
        # after a mutation: every name/count with offset 0 plus a few offsets
        specs = [s for s in specs if s[2] == 0 or s[1] in (None, -1)]
    for spec in specs:
        for api in ("getitem", "get_index", "floordiv"):
            for form in ("str", "tuple"):
                if thin and api == "floordiv":
                    continue
                got = do_lookup(t, api, form, spec)
                want = expect_lookup(names, colv, api, spec)
                cls = ["exh", "after:" + after] + classes_of(spec)
                ctx.stats.case({"names": orig if orig is not None else names, "mutation": mut,
                                "lookup": [api, form, TR.spec_str(spec)]}, after != "none", cls)
                if not same_result(got, want):
                    sig = "C07:lookup-after-" + after if after != "none" else "C07:lookup"
                    kind = "stale" if got[0] != "exc" and want[0] == "exc" else ("unreachable" if got[0] == "exc" else "wrong-row")
                    f = Failure(f"{sig}:{kind}", {"names": names, "before_mutation": orig, "mutation": mut,
                                                  "lookup": [api, form, TR.spec_str(spec)], "got": repr(got), "expected": repr(want)})
                    f.case = {"kind": "exh", "names": orig if orig is not None else names, "mutation": mut,
                              "lookup": [api, form, spec]}
                    return f
    return None


def replay_exh(ctx, case):
    names = case["names"]
    t = make_table(names)
    mut = case.get("mutation")
    names2 = list(names)
    after = "none"
    if mut:
        t.rows.get_index(names[0])
        if mut["how"] == "pos":
            t["name", mut["pos"]] = mut["new"]
        else:
            t["name", TR.unique_labels(names)[mut["pos"]]] = mut["new"]
        names2[mut["pos"]] = mut["new"]
        after = "cell-assign-by-" + ("position" if mut["how"] == "pos" else "name")
    if case.get("lookup") is None:
        return check_labels(t, names2, "name", {"names": names2})
    api, form, spec = case["lookup"]
    got = do_lookup(t, api, form, spec)
    want = expect_lookup(names2, list(t._data["v"]), api, spec)
    if not same_result(got, want):
        return Failure("C07:lookup" + ("-after-" + after if after != "none" else "") + ":replayed",
                       {"names": names2, "mutation": mut, "lookup": [api, form, TR.spec_str(spec)],
                        "got": repr(got), "expected": repr(want)})
    return None


# ------------------------------------------------------------------ generated scripts
# names may hold a SINGLE separator character (MAD-X style 'mq:1', 'x->y'): only the two-character separator strings
# '::', '<<', '>>' are reserved (and no name starts or ends with one of their characters, which would be ambiguous
# next to a separator)
NAME_POOL = ["a", "b", "ab", "c", "ip1", "ip2", "mq.1", "tab$end", "b$b", "A1", "mq:1", "b<a", "x->y"]


@st.composite
def scripts(draw):
    index = draw(st.sampled_from(["name", "name", "key"]))
    pool = draw(st.lists(st.sampled_from(NAME_POOL), min_size=1, max_size=4, unique=True))
    # mostly small tables; one in five is larger (up to 64 rows: cache construction must not depend on the size)
    n = draw(st.integers(0, 8)) if draw(st.integers(0, 4)) else draw(st.integers(9, 64))
    names = [draw(st.sampled_from(pool)) for _ in range(n)]
    cols = {"v": [float(i) * 1.5 for i in range(n)], "k": [i * 10 for i in range(n)]}
    model = {"names": list(names), "cols": {k: list(v) for k, v in cols.items()}}
    steps = []

    def rowspec(present_bias=True):
        cur = model["names"]
        cands = sorted(set(cur)) if cur and draw(st.integers(0, 9)) < 8 else []
        name = draw(st.sampled_from(cands)) if cands else draw(st.sampled_from(pool + [ABSENT]))
        count = draw(st.sampled_from([None, None, 0, 1, 2, -1, -2, 3, -4]))
        try:
            base = TR.ref_row(cur, [name, count, 0])
        except KeyError:
            return [name, count, 0]
        offs = [o for o in (0, 0, -1, 1, 2, -2) if 0 <= base + o < len(cur)]
        return [name, count, draw(st.sampled_from(offs))]

    for _ in range(draw(st.integers(3, 25))):
        n = len(model["names"])
        kind = draw(st.sampled_from(["lookup"] * 6 + ["write_by_name"] * 2 + ["set_index_all"] * 2 + ["cell_pos"] * 3 +
                                    ["cell_name"] * 3 + ["num_cell"] + ["new_col", "del_col", "labels", "labels"]))
        if kind == "lookup":
            steps.append({"op": "lookup", "api": draw(st.sampled_from(["getitem", "getitem", "get_index", "floordiv"])),
                          "form": draw(st.sampled_from(["str", "tuple"])), "spec": rowspec(),
                          "col": draw(st.sampled_from(sorted(model["cols"])))})
        elif kind == "write_by_name":
            spec = rowspec()
            col = draw(st.sampled_from(sorted(model["cols"])))
            val = draw(st.integers(-50, 50))
            steps.append({"op": "write", "form": draw(st.sampled_from(["str", "tuple"])), "spec": spec, "col": col, "val": val})
            try:
                model["cols"][col][TR.ref_row(model["names"], spec)] = val
            except KeyError:
                pass
        elif kind == "set_index_all":
            new = [draw(st.sampled_from(pool)) for _ in range(n)]
            steps.append({"op": "set_index_all", "names": new, "how": draw(st.sampled_from(["item", "attr"]))})
            model["names"] = list(new)
        elif kind == "cell_pos" and n:
            pos = draw(st.integers(-n, n - 1))     # a position may be given from the end, as for any sequence
            new = draw(st.sampled_from(pool))
            steps.append({"op": "cell_pos", "pos": pos, "new": new})
            model["names"][pos] = new
        elif kind == "cell_name" and n:
            spec = rowspec()
            new = draw(st.sampled_from(pool))
            steps.append({"op": "cell_name", "form": draw(st.sampled_from(["str", "tuple"])), "spec": spec, "new": new})
            try:
                model["names"][TR.ref_row(model["names"], spec)] = new
            except KeyError:
                pass
        elif kind == "num_cell" and n:
            pos = draw(st.integers(-n, n - 1))
            col = draw(st.sampled_from(sorted(model["cols"])))
            val = draw(st.integers(-50, 50))
            steps.append({"op": "num_cell", "pos": pos, "col": col, "val": val})
            model["cols"][col][pos] = val
        elif kind == "new_col":
            cname = draw(st.sampled_from(["w", "z2", "extra"]))
            if cname not in model["cols"]:
                vals = [draw(st.integers(-9, 9)) for _ in range(n)]
                steps.append({"op": "new_col", "col": cname, "vals": vals})
                model["cols"][cname] = list(vals)
        elif kind == "del_col":
            cands = [c for c in model["cols"] if c not in ("v",)]
            if cands:
                cname = draw(st.sampled_from(sorted(cands)))
                steps.append({"op": "del_col", "col": cname})
                del model["cols"][cname]
        else:
            steps.append({"op": "labels"})
    return {"kind": "script", "index": index, "names": names, "steps": steps}


def exec_script(ctx, case):
    from xdeps.table import Table
    index = case["index"]
    names = list(case["names"])
    n = len(names)
    cols = {"v": [float(i) * 1.5 for i in range(n)], "k": [i * 10 for i in range(n)]}
    data = {index: np.array(names, dtype=str) if n else np.array([], dtype=str)}
    for c, v in cols.items():
        data[c] = np.array(v, dtype=float)
    t = Table(data, index=index)
    mutated = []          # kinds of index mutations so far
    classes = {"script", "index=" + index, "rows>=17" if n >= 17 else "rows<17"}
    nontrivial = False
    rendered = {"index": index, "names": names, "steps": [render_step(s) for s in case["steps"]]}

    def finish(f):
        ctx.stats.case(rendered, nontrivial, sorted(classes))
        return f
    for si, s in enumerate(case["steps"]):
        where = {"initial_names": case["names"], "index": index, "step": si, "steps": rendered["steps"][:si + 1],
                 "current_names": list(names)}
        op = s["op"]
        try:
            if op == "lookup":
                if s["col"] not in cols:
                    continue
                got = do_lookup(t, s["api"], s["form"], s["spec"], col=s["col"])
                want = expect_lookup(names, cols[s["col"]], s["api"], s["spec"])
                for m in mutated[-3:]:
                    classes.add("after:" + m)
                for c in classes_of(s["spec"]):
                    classes.add(c)
                if mutated:
                    nontrivial = True
                if not same_result(got, want):
                    after = mutated[-1] if mutated else "none"
                    kind = "stale" if got[0] != "exc" and want[0] == "exc" else ("unreachable" if got[0] == "exc" else "wrong-row")
                    return finish(Failure(f"C07:lookup-after-{after}:{kind}" if mutated else f"C07:lookup:{kind}",
                                          dict(where, lookup=render_step(s), got=repr(got), expected=repr(want))))
            elif op == "write":
                if s["col"] not in cols:
                    continue
                row = TR.spec_str(s["spec"]) if s["form"] == "str" else TR.spec_tuple(s["spec"])
                try:
                    pos = TR.ref_row(names, s["spec"])
                    wexc = None
                except KeyError:
                    wexc = "KeyError"
                try:
                    t[s["col"], row] = s["val"]
                    rexc = None
                except Exception as e:
                    rexc = type(e).__name__
                if mutated:
                    nontrivial = True
                if wexc != rexc:
                    return finish(Failure("C07:write-by-name:" + ("not-rejected" if wexc else "unreachable"),
                                          dict(where, write=render_step(s), raised=rexc, expected=wexc)))
                if wexc is None:
                    cols[s["col"]][pos] = s["val"]
            elif op == "set_index_all":
                arr = np.array(s["names"], dtype=object)
                if s["how"] == "item":
                    t[index] = arr
                else:
                    setattr(t, index, arr)
                names = list(s["names"])
                mutated.append("whole-column:" + s["how"])
            elif op == "cell_pos":
                t[index, s["pos"]] = s["new"]
                names[s["pos"]] = s["new"]
                mutated.append("cell-assign-by-position")
                if s["pos"] < 0:
                    classes.add("cell-assign-by-negative-position")
                if any(ch in s["new"] for ch in ":<>"):
                    classes.add("name-with-single-separator-character")
            elif op == "cell_name":
                row = TR.spec_str(s["spec"]) if s["form"] == "str" else TR.spec_tuple(s["spec"])
                try:
                    pos = TR.ref_row(names, s["spec"])
                    wexc = None
                except KeyError:
                    wexc = "KeyError"
                try:
                    t[index, row] = s["new"]
                    rexc = None
                except Exception as e:
                    rexc = type(e).__name__
                if wexc != rexc:
                    return finish(Failure("C07:cell-assign-by-name:" + ("not-rejected" if wexc else "unreachable"),
                                          dict(where, assignment=render_step(s), raised=rexc, expected=wexc)))
                if wexc is None:
                    names[pos] = s["new"]
                    mutated.append("cell-assign-by-name")
            elif op == "num_cell":
                if s["col"] not in cols:
                    continue
                t[s["col"], s["pos"]] = s["val"]
                cols[s["col"]][s["pos"]] = s["val"]
            elif op == "new_col":
                t[s["col"]] = np.array(s["vals"], dtype=float)
                cols[s["col"]] = [float(x) for x in s["vals"]]
                classes.add("new-column")
            elif op == "del_col":
                if s["col"] in cols:
                    del t[s["col"]]
                    del cols[s["col"]]
                    classes.add("column-deleted")
            elif op == "labels":
                classes.add("labels")
                if "k" not in cols:
                    continue
                f = check_labels_generic(t, names, where)
                if f:
                    return finish(f)
            # whole-table agreement (cheap): every column equals the model
            for c, v in cols.items():
                if [float(x) for x in t._data[c]] != [float(x) for x in v]:
                    return finish(Failure("C07:column-differs-from-model", dict(where, column=c)))
            if list(t._data[index]) != names:
                return finish(Failure("C07:index-column-differs-from-model", dict(where, got=list(t._data[index]))))
        except Exception as e:
            return finish(Failure(f"C07:exception:{type(e).__name__}:{op}", dict(where, raised=repr(e)[:200])))
    return finish(None)


def check_labels_generic(t, names, where):
    labels = list(t.cols.get_index_unique())
    want = TR.unique_labels(names)
    if labels != want:
        return Failure("C07:unique-labels-differ", dict(where, got=labels, expected=want))
    for i, lab in enumerate(labels):
        try:
            p = t.rows.get_index(lab)
            v = t["v", lab]
        except Exception as e:
            return Failure("C07:unique-label-does-not-resolve", dict(where, label=lab, row=i, raised=type(e).__name__))
        if p != i or v != t._data["v"][i]:
            return Failure("C07:unique-label-resolves-to-other-row", dict(where, label=lab, row=i, got=int(p)))
    if len(names):
        text = t.show(output=str, maxwidth="full")
        shown = [ln.split()[0] if ln.split() else "" for ln in text.split("\n")[1:]]
        if shown != want:
            return Failure("C07:show-prints-other-labels", dict(where, shown=shown, expected=want))
    return None


def render_step(s):
    op = s["op"]
    if op == "lookup":
        row = TR.spec_str(s["spec"]) if s["form"] == "str" else TR.spec_tuple(s["spec"])
        return {"getitem": f"t[{s['col']!r}, {row!r}]", "get_index": f"t.rows.get_index({row!r})",
                "floordiv": f"t // {row!r}"}[s["api"]]
    if op == "write":
        row = TR.spec_str(s["spec"]) if s["form"] == "str" else TR.spec_tuple(s["spec"])
        return f"t[{s['col']!r}, {row!r}] = {s['val']}"
    if op == "set_index_all":
        return f"t[index] = {s['names']}" if s["how"] == "item" else f"t.<index> = {s['names']}"
    if op == "cell_pos":
        return f"t[index, {s['pos']}] = {s['new']!r}"
    if op == "cell_name":
        row = TR.spec_str(s["spec"]) if s["form"] == "str" else TR.spec_tuple(s["spec"])
        return f"t[index, {row!r}] = {s['new']!r}"
    if op == "num_cell":
        return f"t[{s['col']!r}, {s['pos']}] = {s['val']}"
    if op == "new_col":
        return f"t[{s['col']!r}] = {s['vals']}"
    if op == "del_col":
        return f"del t[{s['col']!r}]"
    return op


def run(ctx):
    run_exhaustive(ctx)
    drive(ctx, scripts(), lambda c: exec_script(ctx, c), ctx.n(400, 5000), salt=1, label="C07 scripts")


def replay(ctx, case):
    if case.get("kind") == "exh":
        return replay_exh(ctx, case)
    return exec_script(ctx, case)
