"""C14 - every Table the API produces is rectangular and leaves its source untouched.

A generated script works on a pool of tables: checked constructors (0..6 rows; float / int / string /
object columns, optionally a 2-D column and scalar entries; index 'name' or another column) and then a
sequence of derivations - rows[...] (positions, masks, regexes, slices, value ranges, spans), cols[...]
(names and expressions), a + b, Table.concatenate, t * k, _copy(), _t, rows.head / tail / reverse -
applied to ANY pool member (so views of views, copies of copies ...), interleaved with column
assignments (existing column in place, new column) on any member.
invariant (every pool member, after every step)
    every name in _col_names resolves, has length len(table); the index column is listed; no listed column
    is missing from the data;
around every derivation
    a deep snapshot of the source (length, column list, every cell, scalars) is identical afterwards;
    scalar entries are carried over by row and column selections;
    the derived content is what the operation denotes (selected rows / concatenation / repetition /
    copy / transposition as strings);
column expressions
    t['a+2*b'] and t.cols['a+b']['a+b'] equal the element-wise numpy computation on the current columns.
An exception from a derivation means "no table produced" (counted per operation), not a violation.
"""
import copy as _copy

import numpy as np
from hypothesis import strategies as st

from vlib import tableref as TR
from vlib.common import Failure, drive

RULE = ("script: 1..3 constructed tables + 3..25 steps (derivations on any pool member, column assignments, expression reads).  "
        "Non-trivial = some derivation is applied to an already derived table (depth >= 2), or to an empty table, or is "
        "followed by a column assignment on source or result; distinct by script digest.")
ASSUMPTIONS = [
    "column names avoid numpy ufunc names and Table attribute names (implicit precondition of __setitem__ / eval)",
    "derived tables may share arrays with their source: only the act of deriving is required to leave the source untouched",
    "a column selection names each column once (a table whose column list repeats a name is outside the domain)",
    "an exception raised by a derivation is 'no table produced' (e.g. Table.concatenate needs an index column called 'name', "
    "cols[...] on a table without index) and is counted, not raised",
]
REQUIRED_CLASSES = ["op:rows", "op:cols", "op:cols-expr", "op:select-cols", "op:select-rows", "op:cols-all", "op:ctor-like", "op:add", "op:concatenate", "op:mul", "op:copy", "op:transpose",
                    "op:head", "op:tail", "op:reverse", "op:assign-existing", "op:assign-new", "op:expr", "expr:asked-again-after-every-step", "depth>=2",
                    "source:empty", "ctor:2d-column", "ctor:scalars", "ctor:index=key"]
COLS = ["a", "b", "c1", "q"]
EXPRS = ["a+2*b", "a*b-1", "sqrt(abs(a))", "b/2", "a**2+b", "-a", "maximum(a,b)"]
NAMES = ["m1", "m2", "d", "ip", "q1"]


# ------------------------------------------------------------------ construction
@st.composite
def ctor_spec(draw):
    n = draw(st.integers(0, 6)) if draw(st.integers(0, 5)) else draw(st.integers(17, 40))
    spec = {"n": n, "index": draw(st.sampled_from(["name", "name", "key"])),
            "names": [draw(st.sampled_from(NAMES)) for _ in range(n)],
            "a": [draw(st.sampled_from([0.0, 1.5, -2.0, 3.25, 1e3, float("nan")])) for _ in range(n)],
            "b": [draw(st.integers(-5, 9)) for _ in range(n)],
            "kinds": [draw(st.sampled_from(["x", "yy", "z"])) for _ in range(n)],
            "obj": draw(st.booleans()), "twod": draw(st.booleans()), "scalars": draw(st.booleans())}
    return spec


def build(spec):
    from xdeps.table import Table
    n = spec["n"]
    idx = spec["index"]
    data = {idx: np.array(spec["names"], dtype=str) if n else np.array([], dtype=str),
            "a": np.array([float(x) for x in spec["a"]], dtype=float), "b": np.array(spec["b"], dtype=int),
            "kind": np.array(spec["kinds"], dtype=str) if n else np.array([], dtype=str)}
    cols = [idx, "a", "b", "kind"]
    if spec["obj"]:
        data["o"] = np.array([[i, "s"] if i % 2 else None for i in range(n)] + [None], dtype=object)[:n]
        cols.append("o")
    if spec["twod"]:
        data["m"] = np.arange(2 * n, dtype=float).reshape(n, 2)
        cols.append("m")
    if spec["scalars"]:
        data["energy"] = 7.5
        data["label"] = "hello"
        data["vec"] = np.arange(9.0 if n != 9 else 10.0)   # a non-column array (its length is never n)
        # array-valued scalars (tunes, a matrix ...) whose first dimension happens to equal a row count - of this table
        # or of a table derived from it - are scalars all the same: they are not listed as columns
        data["svec"] = np.arange(float(n)) + 0.5
        data["smat"] = np.arange(float(n * n)).reshape(n, n)
        data["s2"] = np.array([1.5, 2.5])
        data["s4"] = np.array([1.0, 2.0, 3.0, 4.0])
    return Table(data, col_names=cols, index=idx)


# ------------------------------------------------------------------ snapshots and invariants
def cell(x):
    if isinstance(x, np.ndarray):
        return ("arr", x.shape, tuple(cell(v) for v in x.ravel().tolist()))
    if isinstance(x, float):
        return ("nan",) if x != x else x
    if isinstance(x, (list, tuple)):
        return tuple(cell(v) for v in x)
    if isinstance(x, np.generic):
        return cell(x.item())
    return x


def snapshot(t):
    return {"len": len(t), "cols": list(t._col_names), "index": t._index,
            "data": {c: cell(np.asarray(t._data[c])) for c in t._col_names},
            # scalar entries = data entries that are not listed as columns (computed here, not asked of the table)
            "scalars": {k: cell(t._data[k]) for k in t._data if k not in t._col_names}}


def check_rect(t, where):
    try:
        n = len(t)
    except Exception as e:
        return Failure("C14:len-raises", dict(where, raised=repr(e)[:200]))
    if t._index is not None and t._index not in t._col_names:
        return Failure("C14:index-not-among-columns", dict(where, index=t._index, columns=list(t._col_names)))
    for c in t._col_names:
        if c not in t._data:
            return Failure("C14:listed-column-missing", dict(where, column=c))
        try:
            arr = t[c]
        except Exception as e:
            return Failure("C14:listed-column-does-not-resolve", dict(where, column=c, raised=repr(e)[:200]))
        try:
            ln = len(arr)
        except Exception:
            return Failure("C14:column-has-no-length", dict(where, column=c))
        if ln != n:
            return Failure("C14:column-length-differs", dict(where, column=c, length=ln, table_length=n,
                                                               columns=list(t._col_names)))
    return None


def col_list(t, c):
    return [cell(x) for x in np.asarray(t._data[c])] if np.asarray(t._data[c]).ndim == 1 else \
        [cell(x) for x in list(np.asarray(t._data[c]))]


# ------------------------------------------------------------------ steps
@st.composite
def scripts(draw):
    ctors = [draw(ctor_spec()) for _ in range(draw(st.integers(1, 3)))]
    steps = []
    for _ in range(draw(st.integers(3, 25))):
        op = draw(st.sampled_from(["rows"] * 4 + ["cols", "cols", "cols-expr", "cols-all", "select-cols", "select-rows", "ctor-like",
                                   "add", "add", "concatenate", "mul", "copy",
                                   "transpose", "head", "tail", "reverse", "assign-existing", "assign-existing",
                                   "assign-new", "expr", "expr"]))
        s = {"op": op, "src": draw(st.integers(0, 50))}
        if op == "rows":
            s["sel"] = draw(st.sampled_from(["ints", "mask", "regex", "slice", "range", "empty", "int", "span", "none"]))
            s["seed"] = [draw(st.integers(0, 20)) for _ in range(8)]
        elif op == "cols":
            s["cols"] = draw(st.lists(st.sampled_from(["a", "b", "kind", "o", "m", "a2", "w"]), min_size=1, max_size=3, unique=True))
            s["form"] = draw(st.sampled_from(["str", "list", "tuple"]))
        elif op == "cols-all":
            s["form"] = draw(st.sampled_from(["slice", "none", "names"]))
        elif op == "select-cols":
            s["own_list"] = draw(st.booleans())
        elif op == "select-rows":
            s["seed"] = [draw(st.integers(0, 20)) for _ in range(4)]
        elif op == "ctor-like":
            s["omit_index"] = draw(st.booleans())
            s["short_index"] = draw(st.booleans())
        elif op == "cols-expr":
            s["cols"] = [draw(st.sampled_from([e for e in EXPRS if " " not in e]))] + \
                draw(st.lists(st.sampled_from(["a", "b"]), max_size=1))
        elif op in ("add", "concatenate"):
            s["other"] = draw(st.integers(0, 50))
            s["same"] = draw(st.integers(0, 3)) > 0      # bias: add a table to a derivation of itself (same columns)
        elif op == "mul":
            s["k"] = draw(st.integers(1, 3))
        elif op in ("head", "tail"):
            s["n"] = draw(st.integers(0, 7))
        elif op == "assign-existing":
            s["col"] = draw(st.sampled_from(["a", "b", "a", "b", "kind"]))
            s["val"] = draw(st.sampled_from(["scalar", "array"]))
            s["seed"] = draw(st.integers(0, 100))
        elif op == "assign-new":
            s["col"] = draw(st.sampled_from(["w", "a2", "z9"]))
            s["seed"] = draw(st.integers(0, 100))
        elif op == "expr":
            s["expr"] = draw(st.sampled_from(EXPRS + ["a + 2 * b", "minimum(a, 1) * b"]))
        steps.append(s)
    return {"ctors": ctors, "steps": steps}


def selector_for(t, s):
    """a row selector valid for table t (derived from the step's drawn numbers)"""
    n = len(t)
    sd = s["seed"]
    kind = s["sel"]
    if kind == "int":
        return sd[0] % n if n else None
    if kind == "ints":
        return [x % n for x in sd[:sd[7] % 5]] if n else []
    if kind == "mask":
        return np.array([(sd[i % 8] + i) % 2 == 0 for i in range(n)], dtype=bool)
    if kind == "regex":
        if t._index is None:
            return None
        return ["m.*", "M1", ".*", "d|ip", "q1::0", "m.*::-1", "zz"][sd[0] % 7]
    if kind == "slice":
        return [slice(None, None, -1), slice(1, None), slice(None, 2), slice(None, None, 2), slice(-2, None)][sd[0] % 5]
    if kind == "range":
        if "a" not in t._col_names:
            return None
        return [slice(0.0, 2.0, "a"), slice(None, 1.5, "a"), slice(1.0, None, "a")][sd[0] % 3]
    if kind == "span":
        if t._index is None or n == 0:
            return None
        names = list(t._data[t._index])
        return slice(names[sd[0] % n], names[sd[1] % n])
    if kind == "empty":
        return []
    return None


def selector_ast(t, s):
    """the same selector as a vlib.tableref AST (regex / range / span), for the content oracle"""
    sd = s["seed"]
    kind = s["sel"]
    n = len(t)
    if kind == "regex" and t._index is not None:
        pat, cnt = [("m.*", None), ("M1", None), (".*", None), ("d|ip", None), ("q1", 0), ("m.*", -1), ("zz", None)][sd[0] % 7]
        return ["regex", pat, cnt, 0]
    if kind == "range" and "a" in t._col_names:
        lo, hi = [(0.0, 2.0), (None, 1.5), (1.0, None)][sd[0] % 3]
        return ["range", lo, hi, "a"]
    if kind == "span" and t._index is not None and n:
        names = list(t._data[t._index])
        return ["span", [names[sd[0] % n], None, 0], [names[sd[1] % n], None, 0], None]
    return None


def exec_script(ctx, case):
    from xdeps.table import Table
    pool = []       # entries: {"t": table, "depth": int, "origin": str}
    classes = {"script"}
    state = {"nt": False}
    rendered = {"constructors": [{k: v for k, v in c.items() if k in ("n", "index", "obj", "twod", "scalars")}
                                 for c in case["ctors"]], "steps": []}

    def finish(f):
        ctx.stats.case(rendered, state["nt"], sorted(classes))
        return f
    for spec in case["ctors"]:
        try:
            t = build(spec)
        except Exception as e:
            return finish(Failure(f"C14:constructor-raises:{type(e).__name__}", {"spec": spec, "raised": repr(e)[:200]}))
        pool.append({"t": t, "depth": 0, "origin": f"ctor{len(pool)}"})
        if spec["twod"]:
            classes.add("ctor:2d-column")
        if spec["scalars"]:
            classes.add("ctor:scalars")
        classes.add("ctor:index=" + spec["index"])
        f = check_rect(t, {"table": f"ctor{len(pool) - 1}"})
        if f:
            return finish(f)
    derived_then_assigned = set()
    for si, s in enumerate(case["steps"]):
        op = s["op"]
        src_i = s["src"] % len(pool)
        src = pool[src_i]
        t = src["t"]
        desc = f"{op}(T{src_i})"
        where = {"step": si, "steps": rendered["steps"] + [desc], "constructors": rendered["constructors"]}
        classes.add("op:" + op)
        before = None
        out = None
        expect = None       # {"col": [cells]} for columns whose content is predictable
        try:
            if op in ("assign-existing", "assign-new"):
                n = len(t)
                if op == "assign-existing":
                    if s["col"] not in t._col_names or s["col"] == t._index:
                        rendered["steps"].append(desc + " skipped")
                        continue
                    if s["col"] == "kind":
                        val = "k%d" % s["seed"] if s["val"] == "scalar" else np.array(["k%d" % ((s["seed"] + i) % 3) for i in range(n)], dtype=object)
                    else:
                        val = float(s["seed"]) if s["val"] == "scalar" else np.array([float((s["seed"] + i) % 7) for i in range(n)])
                    desc = f"T{src_i}[{s['col']!r}] = <{s['val']}>"
                    t[s["col"]] = val
                else:
                    if s["col"] in t._data or n in (9, 10):
                        rendered["steps"].append(desc + " skipped")
                        continue
                    desc = f"T{src_i}[{s['col']!r}] = <new column>"
                    t[s["col"]] = np.array([float((s["seed"] * 3 + i) % 11) for i in range(n)])
                    if n > 0 and s["col"] not in t._col_names:
                        return finish(Failure("C14:new-column-not-listed", dict(where, column=s["col"])))
                rendered["steps"].append(desc)
                if src["depth"] >= 1 or src_i in derived_then_assigned:
                    state["nt"] = True
                derived_then_assigned.add(src_i)
            elif op == "expr":
                if "a" not in t._col_names or "b" not in t._col_names:
                    rendered["steps"].append(desc + " skipped")
                    continue
                e = s["expr"]
                desc = f"T{src_i}[{e!r}]"
                rendered["steps"].append(desc)
                a = np.asarray(t._data["a"])
                b = np.asarray(t._data["b"])
                with np.errstate(all="ignore"):
                    want = eval(e, {"sqrt": np.sqrt, "abs": np.abs, "maximum": np.maximum, "minimum": np.minimum}, {"a": a, "b": b})
                    got = t[e]
                if not arrays_same(got, want):
                    return finish(Failure("C14:column-expression-differs",
                                          dict(where, expression=e, got=repr(got)[:200], expected=repr(want)[:200])))
                if " " not in e:
                    with np.errstate(all="ignore"):
                        got2 = t.cols[e][e]
                    if not arrays_same(got2, want):
                        return finish(Failure("C14:cols-expression-differs",
                                              dict(where, expression=e, got=repr(got2)[:200], expected=repr(want)[:200])))
            else:
                before = snapshot(t)
                other = None
                if op == "rows":
                    sel = selector_for(t, s)
                    desc = f"T{src_i}.rows[{sel!r}]"[:80]
                    if s["sel"] == "none":
                        sel = None
                    elif sel is None:
                        rendered["steps"].append(desc + " skipped")
                        continue
                    out = t.rows[sel]
                    # content: positions through the reference for the simple forms
                    if s["sel"] in ("ints", "int", "mask", "slice", "empty", "none"):
                        if s["sel"] == "empty":
                            idx = []
                        elif s["sel"] == "none":
                            idx = list(range(len(t)))
                        elif s["sel"] == "int":
                            idx = [sel]
                        else:
                            idx = [int(i) for i in np.arange(len(t))[sel]]
                        expect = rows_expect(before, idx)
                    else:
                        ast = selector_ast(t, s)
                        if ast is not None:
                            tm = {"index": t._index, "order": list(before["cols"]),
                                  "cols": {c: [x for x in np.asarray(t._data[c]).tolist()] for c in before["cols"]
                                           if np.asarray(t._data[c]).ndim == 1}}
                            try:
                                expect = rows_expect(before, TR.ref_select(tm, ast))
                                classes.add("content-oracle:" + s["sel"])
                            except (KeyError, IndexError, TR.Outside):
                                expect = None
                elif op == "cols":
                    names = [c for c in s["cols"] if c in t._col_names or s["src"] % 7 == 0]
                    if not names:
                        rendered["steps"].append(desc + " skipped")
                        continue
                    desc = f"T{src_i}.cols[{names!r}] ({s['form']})"
                    arg = " ".join(names) if s["form"] == "str" else (list(names) if s["form"] == "list" else tuple(names))
                    if s["form"] == "tuple" and len(names) == 1:
                        arg = names[0]
                    out = t.cols[arg]
                    expect = {c: list_cells(before, c) for c in names if c in before["data"]}
                elif op == "cols-all":
                    # the whole column list: cols[:] / cols[None] / cols[cols.names]
                    desc = f"T{src_i}.cols[{'[:]' if s['form'] == 'slice' else 'None' if s['form'] == 'none' else 'cols.names'}]"
                    arg = slice(None) if s["form"] == "slice" else (None if s["form"] == "none" else t.cols.names)
                    out = t.cols[arg]
                    expect = {c: list_cells(before, c) for c in before["cols"]}
                elif op == "select-cols":
                    # documented low-level API: table._select_cols(iterable of column names)
                    names = t.cols.names if s["own_list"] else list(t._col_names)
                    desc = f"T{src_i}._select_cols({'cols.names' if s['own_list'] else 'list of names'})"
                    out = t._select_cols(names)
                    expect = {c: list_cells(before, c) for c in before["cols"]}
                elif op == "select-rows":
                    n = len(t)
                    idx = [x % n for x in s["seed"][:3]] if n else []
                    desc = f"T{src_i}._select_rows({idx})"
                    out = t._select_rows(idx)
                    expect = rows_expect(before, idx)
                elif op == "ctor-like":
                    # the checked constructor on this table's own data with an explicit column list
                    cols_arg = [c for c in t._col_names if not (s["omit_index"] and c == t._index)]
                    data = dict(t._data)
                    if s["short_index"] and s["omit_index"] and t._index is not None and len(t) > 1:
                        data[t._index] = np.asarray(data[t._index])[:-1]
                    desc = f"Table(T{src_i} data, col_names={'without index' if s['omit_index'] else 'all'}" + \
                        (", shorter index array)" if s["short_index"] and s["omit_index"] else ")")
                    if not cols_arg:
                        rendered["steps"].append(desc + " skipped")
                        continue
                    out = Table(data, col_names=cols_arg, index=t._index)
                elif op == "cols-expr":
                    names = list(s["cols"])
                    desc = f"T{src_i}.cols[{names!r}]"
                    out = t.cols[names]
                elif op in ("add", "concatenate"):
                    oi = s["other"] % len(pool)
                    if s["same"]:
                        oi = src_i
                    other = pool[oi]["t"]
                    if list(other._col_names) != list(t._col_names):
                        rendered["steps"].append(desc + " skipped (different columns)")
                        continue
                    obefore = snapshot(other)
                    desc = f"T{src_i} + T{oi}" if op == "add" else f"Table.concatenate([T{src_i}, T{oi}])"
                    out = (t + other) if op == "add" else Table.concatenate([t, other])
                    expect = {c: list_cells(before, c) + list_cells(obefore, c) for c in before["cols"]}
                    if snapshot(other) != obefore:
                        return finish(Failure(f"C14:source-changed-by:{op}", dict(where, operand="second")))
                elif op == "mul":
                    desc = f"T{src_i} * {s['k']}"
                    out = t * s["k"]
                    expect = {c: list_cells(before, c) * s["k"] for c in before["cols"]}
                elif op == "copy":
                    desc = f"T{src_i}._copy()"
                    out = t._copy()
                    expect = {c: list_cells(before, c) for c in before["cols"]}
                elif op == "transpose":
                    desc = f"T{src_i}._t"
                    out = t._t
                elif op == "head":
                    desc = f"T{src_i}.rows.head({s['n']})"
                    out = t.rows.head(s["n"])
                    expect = rows_expect(before, list(range(before["len"]))[:s["n"]])
                elif op == "tail":
                    desc = f"T{src_i}.rows.tail({s['n']})"
                    if s["n"] == 0:
                        rendered["steps"].append(desc + " skipped")
                        continue
                    out = t.rows.tail(s["n"])
                    expect = rows_expect(before, list(range(before["len"]))[-s["n"]:])
                elif op == "reverse":
                    desc = f"T{src_i}.rows.reverse()"
                    out = t.rows.reverse()
                    expect = rows_expect(before, list(range(before["len"]))[::-1])
                rendered["steps"].append(desc + f" -> T{len(pool)}")
        except Exception as e:
            classes.add(f"no-table:{op}:{type(e).__name__}")
            ctx.stats.excluded[f"{op} raised {type(e).__name__}: no table produced"] += 1
            rendered["steps"].append(desc + f" raised {type(e).__name__}")
            if before is not None and snapshot(t) != before:
                return finish(Failure(f"C14:source-changed-by-failed:{op}", dict(where, raised=repr(e)[:200])))
            continue
        where["steps"] = list(rendered["steps"])
        if out is not None:
            after = snapshot(t)
            if after != before:
                what = [k for k in ("len", "cols", "index", "data", "scalars") if after[k] != before[k]]
                return finish(Failure(f"C14:source-changed-by:{op}", dict(where, changed=what)))
            if not hasattr(out, "_col_names"):
                return finish(Failure(f"C14:not-a-table:{op}", dict(where, got=type(out).__name__)))
            f = check_rect(out, dict(where, table=f"T{len(pool)} = {desc}"))
            if f:
                f.sig += ":" + op
                return finish(f)
            if op in ("rows", "cols", "cols-expr", "cols-all", "select-cols", "select-rows", "head", "tail", "reverse"):
                for k, v in before["scalars"].items():
                    if k not in out._data or cell(out._data[k]) != v:
                        return finish(Failure(f"C14:scalar-not-carried-over:{op}", dict(where, scalar=k)))
            if expect:
                for c, cells in expect.items():
                    if c not in out._data:
                        return finish(Failure(f"C14:derived-column-missing:{op}", dict(where, column=c)))
                    got = list_cells({"data": {c: cell(np.asarray(out._data[c]))}}, c)
                    if got != cells:
                        return finish(Failure(f"C14:derived-content-differs:{op}",
                                              dict(where, column=c, got=repr(got)[:200], expected=repr(cells)[:200])))
            if op == "transpose":
                f = check_transpose(out, before, where)
                if f:
                    return finish(f)
            if before["len"] == 0:
                classes.add("source:empty")
                state["nt"] = True
            depth = src["depth"] + 1
            if depth >= 2:
                classes.add("depth>=2")
                state["nt"] = True
            if len(pool) < 12:
                pool.append({"t": out, "depth": depth, "origin": desc})
        # ---- invariant on every pool member
        for pi, p in enumerate(pool):
            f = check_rect(p["t"], dict(where, table=f"T{pi} ({p['origin']})"))
            if f:
                f.sig += ":pool-member-after:" + op
                return finish(f)
            # column expressions are a function of the table's CURRENT columns: asked again after every step on every
            # table (tables derived from one another may share arrays, so a column can change through another table;
            # whatever t['a'] and t['b'] show now is what t['a+2*b'] must be computed from)
            tt = p["t"]
            if "a" in tt._col_names and "b" in tt._col_names and len(tt) > 0:
                try:
                    a = np.asarray(tt["a"])
                    b = np.asarray(tt["b"])
                    if a.dtype.kind not in "fiu" or b.dtype.kind not in "fiu" or a.shape != b.shape:
                        continue
                    with np.errstate(all="ignore"):
                        for e, want in (("a+2*b", a + 2 * b), ("a*b-1", a * b - 1)):
                            got = tt[e]
                            if not arrays_same(got, want):
                                return finish(Failure("C14:column-expression-differs:asked-again",
                                                      dict(where, table=f"T{pi} ({p['origin']})", expression=e,
                                                           got=repr(got)[:200], expected=repr(want)[:200])))
                    classes.add("expr:asked-again-after-every-step")
                except Exception as e:
                    return finish(Failure(f"C14:column-expression-raises:{type(e).__name__}",
                                          dict(where, table=f"T{pi} ({p['origin']})", raised=repr(e)[:200])))
    return finish(None)


def list_cells(snap, c):
    d = snap["data"][c]
    if d[0] == "arr":
        shape, flat = d[1], d[2]
        if len(shape) == 1:
            return list(flat)
        width = 1
        for x in shape[1:]:
            width *= x
        return [tuple(flat[i * width:(i + 1) * width]) for i in range(shape[0])]
    return [d]


def rows_expect(before, idx):
    out = {}
    for c in before["cols"]:
        cells = list_cells(before, c)
        out[c] = [cells[i] for i in idx]
    return out


def arrays_same(a, b):
    a, b = np.asarray(a), np.asarray(b)
    if a.shape != b.shape:
        return False
    try:
        return bool(np.array_equal(a, b, equal_nan=True))
    except TypeError:
        return bool(np.array_equal(a, b))


def check_transpose(out, before, where):
    if out._index != "columns" or list(out._data["columns"]) != before["cols"]:
        return Failure("C14:transpose:column-names", dict(where, got=list(out._data["columns"])))
    if len(out._col_names) != before["len"] + 1:
        return Failure("C14:transpose:row-count", dict(where, got=len(out._col_names) - 1, expected=before["len"]))
    return None


def run(ctx):
    drive(ctx, scripts(), lambda c: exec_script(ctx, c), ctx.n(600, 4000), salt=1, label="C14")


def replay(ctx, case):
    return exec_script(ctx, case)
