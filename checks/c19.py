"""C19 - MAD-X expressions mean the same deferred as evaluated immediately.

An own grammar walker derives strings from calc_grammar (one generator branch per production, so rule
coverage is complete by construction) together with their derivation tree: sums, products, powers with ^
and **, unary signs, every NUMBER form (1, 1., .5, 1e3, 1.5E-3, leading zeros), names with dots,
underscores, % and a leading dot, element->attribute access, one- and two-argument functions, random
inline whitespace; plus a fully parenthesised rendering of the same tree.
For each string, in 'item' and in 'attr' element mode:
  deferred   MadxEval(variable refs, function ref, element refs).eval(s)    (what MadxEnv.madexpr is)
  immediate  MadxEval(plain variables, math, plain elements).eval(s)        (what MadxEnv.madeval is)
  python     the derivation tree evaluated with Python float arithmetic by the harness
must agree bit for bit (NaN == NaN) or raise the same exception type; where the immediate evaluation hits a
division by zero the deferred one may yield NaN instead (the documented deviation, counted).  Then variables
and element attributes are changed THROUGH THE MANAGER and all three must agree again, and a variable
defined as the deferred expression must hold the immediate value (push path).
"""
import math
import operator

from hypothesis import strategies as st

from vlib import expr as E
from vlib.common import Failure, drive

RULE = ("strings from a grammar walker (depth <= 6), natural and fully parenthesised rendering, two element access modes, "
        "two valuations; non-trivial = >= 3 operators including a power or a unary sign or a function call; distinct by "
        "(string, mode) digest; per-production coverage is reported as classes and required to be complete.")
ASSUMPTIONS = [
    "only defined variables / elements / attributes and functions of `math` are used",
    "if the immediate evaluation raises ZeroDivisionError nothing is required of the deferred one (documented NaN "
    "deviation for / : evaluation continues and may even reach an error further right); counted",
    "the natural rendering is compared with the derivation tree too: the grammar is unambiguous, so the tree the walker "
    "built is the parse tree",
]
REQUIRED_CLASSES = ["rule:add", "rule:sub", "rule:mul", "rule:div", "rule:pow^", "rule:pow**", "rule:neg", "rule:pos",
                    "rule:number", "rule:var", "rule:getitem", "rule:call1", "rule:call2", "rule:paren",
                    "number:int", "number:trailing-dot", "number:leading-dot", "number:exponent", "number:leading-zeros",
                    "name:dotted", "name:percent", "name:leading-dot", "name:underscore", "whitespace:tab",
                    "mode:item", "mode:attr", "zero-division-deviation", "push-path", "values:ints"]

VARS = ["a", "b1", "x.y", "_u", "k%s", ".z", "on_x1.l", "A", "kq4.r8b2"]
ELEMS = {"el": ["k1", "l"], "mq.1": ["k1", "angle"], "d_2": ["l"]}
FUN1 = ["sin", "cos", "sqrt", "exp", "atan", "fabs", "log"]
FUN2 = ["atan2", "hypot", "pow", "fmod", "copysign"]
NUMS = ["0", "1", "2", "3", "10", "007", "1.", "2.5", ".5", ".25", "1e3", "1E-2", "1.5e+2", "2.e0", "0.0", "12.75", "3e-1"]


class Walker:
    def __init__(self, draw, arith_only=False):
        self.draw = draw
        self.rules = set()
        self.arith_only = arith_only        # + - * / signs parentheses only (the integer-valued family)

    def ws(self):
        r = self.draw(st.integers(0, 9))
        return ["", "", "", "", "", " ", " ", "  ", "\t", " \t"][r]

    def sum(self, d):
        if d <= 0 or self.draw(st.integers(0, 2)) == 0:
            return self.product(d)
        op = self.draw(st.sampled_from(["add", "sub"]))
        self.rules.add(op)
        return [op, self.sum(d - 1), self.product(d - 1)]

    def product(self, d):
        if d <= 0 or self.draw(st.integers(0, 2)) == 0:
            return self.power(d)
        op = self.draw(st.sampled_from(["mul", "mul", "div"]))
        self.rules.add(op)
        return [op, self.product(d - 1), self.power(d - 1)]

    def power(self, d):
        if d <= 0 or self.arith_only or self.draw(st.integers(0, 3)) > 0:
            return self.atom(d)
        sym = self.draw(st.sampled_from(["^", "**"]))
        self.rules.add("pow" + sym)
        # exponent atom kept small: a number or a short atom
        base = self.power(d - 1)
        ex = ["num", self.draw(st.sampled_from(["2", "3", "0", "1", ".5", "2."]))] if self.draw(st.integers(0, 3)) > 0 \
            else self.atom(0)
        return ["pow", base, ex, sym]

    def atom(self, d):
        k = self.draw(st.sampled_from(["num", "num", "var", "var", "var", "get", "neg", "pos", "paren"] +
                                      ([] if self.arith_only else ["call"])
                                      if d > 0 else ["num", "var", "var", "get"]))
        self.rules.add({"num": "number", "get": "getitem", "paren": "paren"}.get(k, k))
        if k == "num":
            return ["num", self.draw(st.sampled_from(NUMS))]
        if k == "var":
            return ["var", self.draw(st.sampled_from(VARS))]
        if k == "get":
            el = self.draw(st.sampled_from(sorted(ELEMS)))
            return ["get", el, self.draw(st.sampled_from(ELEMS[el]))]
        if k == "neg":
            return ["neg", self.atom(d - 1)]
        if k == "pos":
            return ["pos", self.atom(d - 1)]
        if k == "paren":
            return ["par", self.sum(d - 1)]
        if self.draw(st.booleans()):
            self.rules.add("call1")
            return ["call", self.draw(st.sampled_from(FUN1)), [self.sum(d - 1)]]
        self.rules.add("call2")
        return ["call", self.draw(st.sampled_from(FUN2)), [self.sum(d - 1), self.sum(d - 1)]]

    def text(self, t, full=False):
        """natural rendering (full=False) or fully parenthesised"""
        w = self.ws if not full else (lambda: "")
        k = t[0]
        if k in ("add", "sub", "mul", "div"):
            sym = {"add": "+", "sub": "-", "mul": "*", "div": "/"}[k]
            s = self.text(t[1], full) + w() + sym + w() + self.text(t[2], full)
            return "(" + s + ")" if full else s
        if k == "pow":
            s = self.text(t[1], full) + w() + t[3] + w() + self.text(t[2], full)
            return "(" + s + ")" if full else s
        if k == "num":
            return t[1]
        if k == "var":
            return t[1]
        if k == "get":
            return t[1] + w() + "->" + w() + t[2]
        if k == "neg":
            s = "-" + w() + self.text(t[1], full)
            return "(" + s + ")" if full else s
        if k == "pos":
            s = "+" + w() + self.text(t[1], full)
            return "(" + s + ")" if full else s
        if k == "par":
            return "(" + w() + self.text(t[1], full) + w() + ")"
        if k == "call":
            return t[1] + w() + "(" + w() + (w() + "," + w()).join(self.text(a, full) for a in t[2]) + w() + ")"
        raise ValueError(t)


def py_eval(t, vals, elems):
    """the derivation tree in plain Python float arithmetic"""
    k = t[0]
    if k == "num":
        return float(t[1])
    if k == "var":
        return vals[t[1]]
    if k == "get":
        return elems[t[1]][t[2]]
    if k == "neg":
        return operator.neg(py_eval(t[1], vals, elems))
    if k == "pos":
        return operator.pos(py_eval(t[1], vals, elems))
    if k == "par":
        return py_eval(t[1], vals, elems)
    if k == "call":
        return getattr(math, t[1])(*[py_eval(a, vals, elems) for a in t[2]])
    a, b = py_eval(t[1], vals, elems), py_eval(t[2], vals, elems)
    if k == "add":
        return a + b
    if k == "sub":
        return a - b
    if k == "mul":
        return a * b
    if k == "div":
        return a / b
    if k == "pow":
        return a ** b
    raise ValueError(t)


def n_ops(t):
    k = t[0]
    if k in ("num", "var", "get"):
        return 0
    if k in ("neg", "pos", "par"):
        return (0 if k == "par" else 1) + n_ops(t[1])
    if k == "call":
        return 1 + sum(n_ops(a) for a in t[2])
    return 1 + n_ops(t[1]) + n_ops(t[2])


def has(t, kinds):
    if t[0] in kinds:
        return True
    if t[0] in ("num", "var", "get"):
        return False
    if t[0] == "call":
        return any(has(a, kinds) for a in t[2])
    return any(has(x, kinds) for x in t[1:3] if isinstance(x, list))


value_st = st.one_of(st.sampled_from([0.0, -0.0, 1.0, -1.0, 2.0, 0.5, -2.5, 3.0, 1e-3, 1e3, 7.25]),
                     st.integers(-40, 40).map(lambda i: i / 8.0))
# the integer-valued family (variables and attributes hold Python ints, some beyond 2**53 and beyond the float range):
# Python's int / int is the correctly rounded exact quotient; only + - * / and signs are used there (no power: int ** int
# is unbounded; no functions: with mixed int / float operands the compiled build may differ from CPython in the SIGN of a
# zero, which only a function such as atan2 / copysign could turn into a different value)
int_value_st = st.sampled_from([0, 1, -1, 2, 3, 7, -3, 10, 2 ** 53 + 1, 3 * (2 ** 53 + 1), -(2 ** 53 + 3), 2 ** 64 + 1,
                                10 ** 400, 10 ** 399, -10 ** 400, 6 * 10 ** 399])


@st.composite
def cases(draw):
    ints = draw(st.integers(0, 5)) == 0
    wk = Walker(draw, arith_only=ints)
    tree = wk.sum(draw(st.integers(1, 6)))
    vst = int_value_st if ints else value_st
    enc = (lambda v: {"int": str(v)}) if ints else (lambda v: v)      # big ints travel as text in the JSON case
    vals1 = {v: enc(draw(vst)) for v in VARS}
    vals2 = {v: enc(draw(vst)) for v in VARS}
    el1 = {e: {a: enc(draw(vst)) for a in attrs} for e, attrs in ELEMS.items()}
    el2 = {e: {a: enc(draw(vst)) for a in attrs} for e, attrs in ELEMS.items()}
    el3 = {e: {a: enc(draw(vst)) for a in attrs} for e, attrs in ELEMS.items()}
    return {"kind": "madx", "tree": tree, "text": wk.text(tree), "full": wk.text(tree, full=True),
            "mode": draw(st.sampled_from(["item", "attr"])), "vals": [vals1, vals2], "elems": [el1, el2], "elems3": el3,
            "rules": sorted(wk.rules), "ints": ints}


def _dec_vals(x):
    """undo the text encoding of integer values (recursively over the dicts of a case)"""
    if isinstance(x, dict):
        if set(x) == {"int"}:
            return int(x["int"])
        return {k: _dec_vals(v) for k, v in x.items()}
    if isinstance(x, list):
        return [_dec_vals(v) for v in x]
    return x


class ElObj:
    pass


_EVALUATORS = {}


def outcome(fn):
    try:
        return ("ok", fn())
    except Exception as e:
        return ("exc", type(e).__name__)


def same(a, b):
    if a[0] != b[0]:
        return False
    if a[0] == "exc":
        return a[1] == b[1]
    x, y = a[1], b[1]
    if isinstance(x, int) and isinstance(y, int) and not isinstance(x, bool) and not isinstance(y, bool):
        return x == y
    if isinstance(x, int) != isinstance(y, int):
        return False        # an exact integer on one side, a float on the other
    if isinstance(x, complex) or isinstance(y, complex):
        return isinstance(x, complex) and isinstance(y, complex) and E.same(x, y)
    return E.same(float(x), float(y))


def show(o):
    return o[1] if o[0] == "exc" else repr(o[1])


def text_classes(case):
    out = set("rule:" + r for r in case["rules"])
    txt = case["text"]

    def nums(t):
        if t[0] == "num":
            yield t[1]
        elif t[0] == "call":
            for a in t[2]:
                yield from nums(a)
        elif t[0] not in ("var", "get"):
            for x in t[1:3]:
                if isinstance(x, list):
                    yield from nums(x)

    def names(t):
        if t[0] == "var":
            yield t[1]
        elif t[0] == "get":
            yield t[1]
        elif t[0] == "call":
            for a in t[2]:
                yield from names(a)
        elif t[0] != "num":
            for x in t[1:3]:
                if isinstance(x, list):
                    yield from names(x)
    for s in nums(case["tree"]):
        if "e" in s.lower():
            out.add("number:exponent")
        elif s.endswith("."):
            out.add("number:trailing-dot")
        elif s.startswith("."):
            out.add("number:leading-dot")
        elif s.startswith("0") and len(s) > 1 and "." not in s:
            out.add("number:leading-zeros")
        elif "." not in s:
            out.add("number:int")
    for s in names(case["tree"]):
        if s.startswith("."):
            out.add("name:leading-dot")
        elif "." in s:
            out.add("name:dotted")
        if "%" in s:
            out.add("name:percent")
        if "_" in s:
            out.add("name:underscore")
    if "\t" in txt:
        out.add("whitespace:tab")
    return out


def exec_case(ctx, case):
    import xdeps
    from xdeps.madxutils import MadxEval
    mode = case["mode"]
    tree = case["tree"]
    classes = {"madx", "mode:" + mode} | text_classes(case)
    nt = n_ops(tree) >= 3 and has(tree, ("pow", "neg", "pos", "call"))
    rendered = {"text": case["text"], "parenthesised": case["full"], "mode": mode}

    def finish(f):
        ctx.stats.case(rendered, nt, sorted(classes))
        return f
    case = dict(case, vals=_dec_vals(case["vals"]), elems=_dec_vals(case["elems"]), elems3=_dec_vals(case.get("elems3")))
    if case.get("ints"):
        classes.add("values:ints")
    vals1, vals2 = case["vals"]
    el1, el2 = case["elems"]
    variables = dict(vals1)
    variables["t__"] = 0.0
    if mode == "item":
        elements = {e: dict(a) for e, a in el1.items()}
    else:
        elements = {}
        for e, attrs in el1.items():
            o = ElObj()
            for a, v in attrs.items():
                setattr(o, a, v)
            elements[e] = o
    mgr = xdeps.Manager()
    vref = mgr.ref(variables, "v")
    eref = mgr.ref(elements, "e")
    fref = mgr.ref(math, "f")
    try:
        # fresh evaluators for every case, exactly as MadxEnv builds them: an evaluator shared between cases would
        # leak any state it keeps (a memoising evaluator made the test body history dependent -> harness error)
        imm = MadxEval(variables, math, elements, get=mode)
        dfr = MadxEval(vref, fref, eref, get=mode)
    except Exception as e:
        return finish(Failure(f"C19:evaluator-construction-raises:{type(e).__name__}", dict(rendered, raised=repr(e)[:200])))

    def plain_elems():
        if mode == "item":
            return elements
        return {e: vars(o) for e, o in elements.items()}

    def compare(stage, exprs):
        """-> Failure|None ; exprs: {'natural': deferred obj, 'parenthesised': deferred obj}"""
        py = outcome(lambda: py_eval(tree, variables, plain_elems()))
        for name, text in (("natural", case["text"]), ("parenthesised", case["full"])):
            im = outcome(lambda: imm.eval(text))
            d = exprs.get(name)
            if d is None:
                continue
            if d[0] == "exc":
                de = d
            else:
                obj = d[1]
                de = outcome(obj._get_value) if E.is_ref(obj) else ("ok", obj)
                if E.is_ref(obj):
                    # asked again at the same valuation: the same answer (a value, or the same failure)
                    de2 = outcome(obj._get_value)
                    if not same(de, de2):
                        return Failure("C19:deferred-evaluation-not-repeatable",
                                       dict(rendered, stage=stage, rendering=name, first=show(de), second=show(de2),
                                            immediate=show(im)))
            where = dict(rendered, stage=stage, rendering=name, immediate=show(im), deferred=show(de), python=show(py))
            if im == ("exc", "ZeroDivisionError"):
                # documented deviation: the deferred division yields NaN and evaluation goes on (it may then hit
                # another error the immediate evaluation never reached, e.g. log(0) further right): nothing required
                classes.add("zero-division-deviation")
            elif im[0] == "exc" and de[0] == "exc" and im[1] != de[1]:
                # both fail; which error surfaces first depends on evaluation order (the deferred build evaluates
                # literal-only sub-terms before anything else): not a difference in value
                classes.add("both-raise(different-types)")
            elif not same(im, de):
                return Failure("C19:deferred-differs-from-immediate" + (":after-change" if stage != "initial" else ""), where)
            if not same(im, py):
                return Failure("C19:immediate-differs-from-python:" + name, where)
        return None

    exprs = {"natural": outcome(lambda: dfr.eval(case["text"])), "parenthesised": outcome(lambda: dfr.eval(case["full"]))}
    f = compare("initial", exprs)
    if f:
        return finish(f)
    # ---- push path: a variable defined as the deferred expression
    pushed = False
    nat = exprs["natural"]
    if nat[0] == "ok" and E.is_ref(nat[1]):
        try:
            vref["t__"] = nat[1]
            pushed = True
            classes.add("push-path")
        except Exception:
            # the expression does not evaluate at the initial valuation (domain error, 0 ** -1 ...): set_value has
            # registered the definition before evaluating it - withdraw it, this case has no push path
            pushed = False
            if vref["t__"] in mgr.tasks:
                mgr.unregister(vref["t__"])
    # ---- change everything through the manager
    try:
        for v, x in vals2.items():
            vref[v] = x
        for e, attrs in el2.items():
            for a, x in attrs.items():
                if mode == "item":
                    eref[e][a] = x
                else:
                    setattr(eref[e], a, x)
    except Exception as ex:
        if pushed:
            # the dependent variable is recomputed on every assignment: Python may raise on an intermediate valuation
            classes.add("push-raises-on-intermediate-valuation")
            return finish(None)
        return finish(Failure(f"C19:assignment-through-manager-raises:{type(ex).__name__}", dict(rendered, raised=repr(ex)[:200])))
    f = compare("after-change", exprs)
    if f:
        return finish(f)
    def check_pushed(stage):
        im = outcome(lambda: imm.eval(case["text"]))
        got = ("ok", variables["t__"])
        if im[0] == "ok" and not same(im, got):
            return Failure("C19:variable-defined-by-expression-is-stale",
                           dict(rendered, stage=stage, immediate=show(im), variable=show(got),
                                dependencies=sorted(str(d) for d in nat[1]._get_dependencies())))
        return None
    if pushed:
        f = check_pushed("after-change")
        if f:
            return finish(f)
    # ---- whole elements are REPLACED through the manager by new objects (a lattice element redefined): expressions
    # built before must read the new element, like immediate evaluation does
    el3 = case.get("elems3")
    if el3:
        classes.add("elements-replaced")
        try:
            for e, attrs in el3.items():
                if mode == "item":
                    new = dict(attrs)
                else:
                    new = ElObj()
                    for a, x in attrs.items():
                        setattr(new, a, x)
                eref[e] = new
        except Exception as ex:
            if pushed:
                classes.add("push-raises-on-intermediate-valuation")
                return finish(None)
            return finish(Failure(f"C19:element-replacement-raises:{type(ex).__name__}", dict(rendered, raised=repr(ex)[:200])))
        f = compare("after-elements-replaced", exprs)
        if f:
            return finish(f)
        if pushed:
            f = check_pushed("after-elements-replaced")
            if f:
                return finish(f)
    return finish(None)


def run(ctx):
    drive(ctx, cases(), lambda c: exec_case(ctx, c), ctx.n(400, 5000), salt=1, label="C19")


def replay(ctx, case):
    return exec_case(ctx, case)
