#!/bin/bash
# usage: tools/runmut.sh <patch.diff> <ID> [<ID> ...]   (env TIER=quick|thorough, default quick)
# Applies the patch to a scratch copy of /repo (outside /repo and /verif), runs the named checks
# against it through VERIF_REPO, prints one verdict line per check, removes the copy.
set -u
patch=$(realpath "$1"); shift
scratch=$(mktemp -d /tmp/xdv_mut_XXXXXX)
trap 'rm -rf "$scratch"' EXIT
mkdir -p "$scratch/repo"
(cd /repo && git ls-files -z | xargs -0 -I{} cp --parents {} "$scratch/repo/") 2>/dev/null
# the working tree's (possibly uncommitted) sources
cp -r /repo/xdeps/*.py "$scratch/repo/xdeps/"; cp /repo/xdeps/optimize/*.py "$scratch/repo/xdeps/optimize/"
if ! (cd "$scratch/repo" && patch -p1 -s --no-backup-if-mismatch < "$patch"); then echo "PATCH-FAILED $patch"; exit 3; fi
cd "$(dirname "$0")/.."
for id in "$@"; do
  out=$(VERIF_REPO="$scratch/repo" VERIF_EVIDENCE_DIR="$scratch/ev" ./check "$id" "${TIER:-quick}" 2>&1); rc=$?
  if [ $rc -eq 1 ]; then v=KILLED; elif [ $rc -eq 0 ]; then v=SURVIVED; else v="ERROR(rc=$rc)"; fi
  echo "$v $id $(basename "$patch") :: $(echo "$out" | grep -m1 -B1 '^VIOLATION' | head -1 | cut -c1-300)"
  [ $rc -ge 2 ] && echo "$out" | tail -5
done
