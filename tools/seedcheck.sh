#!/bin/bash
# usage: tools/seedcheck.sh <worktree> <PID> <seed-name> [check ids...]
# Confirms a seeded change independently (baseline tests still pass; demo fails with it and passes without it) in a
# scratch copy of /repo HEAD outside /repo and /verif, stores it under seeded/<name>/ and runs the named checks on it.
set -u
wt=$1; pid=$2; name=$3; shift 3
cd "$(dirname "$0")/.."
out=seeded/$name
mkdir -p "$out"
if [ -f "$wt" ]; then      # <worktree> may also be a patch file; then DEMO=<demo.py> NOTES=<notes.md> name the other two
  cp "$wt" "$out/patch.diff"; [ -n "${DEMO:-}" ] && cp "$DEMO" "$out/demo.py"; [ -n "${NOTES:-}" ] && cp "$NOTES" "$out/NOTES.md"
else
  git -C "$wt" diff -- xdeps > "$out/patch.diff"
  demo=$(ls "$wt"/demo_*.py 2>/dev/null | head -1)
  [ -n "$demo" ] && cp "$demo" "$out/demo.py"
  [ -f "$wt"/NOTES_*.md ] && cp "$wt"/NOTES_*.md "$out/NOTES.md"
fi
[ -s "$out/patch.diff" ] || { echo "EMPTY PATCH"; exit 3; }
scratch=$(mktemp -d /tmp/xdv_seed_XXXXXX)
trap 'rm -rf "$scratch"' EXIT
(cd /repo && git ls-files -z | xargs -0 cp --parents -t "$scratch/")
cd "$scratch"
build() { /venv/bin/python setup.py build_ext --inplace >/dev/null 2>&1 || echo "BUILD FAILED"; }
build
d0=$(PYTHONPATH="$scratch" timeout 600 /venv/bin/python "/verif/$out/demo.py" >/dev/null 2>&1; echo $?)
patch -p1 -s < "/verif/$out/patch.diff" || { echo "PATCH FAILED"; exit 3; }
grep -q "xdeps/refs.py" "/verif/$out/patch.diff" && build
t1=$(PYTHONPATH="$scratch" /venv/bin/python -m pytest -q -p no:cacheprovider --timeout=900 tests 2>&1 | tail -1)
d1=$(PYTHONPATH="$scratch" timeout 600 /venv/bin/python "/verif/$out/demo.py" >/dev/null 2>&1; echo $?)
cd /verif
echo "demo without change: exit $d0 ; with change: exit $d1 ; tests with change: $t1"
res=""
for id in "$@"; do
  r=$(tools/runmut.sh "$out/patch.diff" "$id" 2>&1 | grep -E "^(KILLED|SURVIVED|ERROR|PATCH)" | cut -c1-220)
  echo "$r"; res="$res$r\n"
done
printf "demo_without_change_exit=%s\ndemo_with_change_exit=%s\ntests_with_change=%s\n%b" "$d0" "$d1" "$t1" "$res" > "$out/verification.txt"
