#!/usr/bin/env python3
"""Regenerates the table of seeded changes in DESIGN.md section 6 from seeded/*/meta.json (between the header row
'| property | seeded change' and the first following line that is not a table row)."""
import glob, json, os, re
HERE = os.path.dirname(os.path.dirname(os.path.abspath(__file__)))
rows = []
for d in sorted(glob.glob(os.path.join(HERE, "seeded", "*"))):
    mp = os.path.join(d, "meta.json")
    if not os.path.exists(mp):
        continue
    m = json.load(open(mp))
    note = ""
    if m.get("history"):
        h = m["history"]
        note = "missed at first, check strengthened (see meta.json)" if h.lower().startswith("missed") else h[:110]
    rows.append(f"| {m['property']} | {os.path.basename(d)} | {', '.join(m.get('caught_by_quick', [])) or 'NOT CAUGHT'} | {note} |")
p = os.path.join(HERE, "DESIGN.md")
lines = open(p).read().split("\n")
i = next(k for k, l in enumerate(lines) if l.startswith("| property | seeded change"))
j = i + 2
while j < len(lines) and lines[j].startswith("|"):
    j += 1
lines[i + 2:j] = rows
open(p, "w").write("\n".join(lines))
missed = sum(1 for r in rows if "missed at first" in r or "harness error" in r)
print(len(rows), "rows;", missed, "missed at first")
