#!/usr/bin/env python3
"""usage: tools/mkpatch.py <out.patch> <repo-relative file> <<< python-literal list of (old, new) pairs on stdin
Creates a unified diff (a/ b/ prefixes, applies with patch -p1 / git apply) replacing each old text (must occur once)."""
import ast, difflib, sys
out, rel = sys.argv[1], sys.argv[2]
pairs = ast.literal_eval(sys.stdin.read())
src = open("/repo/" + rel).read()
new = src
for old, rep in pairs:
    assert new.count(old) == 1, (new.count(old), old)
    new = new.replace(old, rep)
d = difflib.unified_diff(src.splitlines(True), new.splitlines(True), "a/" + rel, "b/" + rel)
open(out, "w").write("".join(d))
print("wrote", out)
