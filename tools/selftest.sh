#!/bin/bash
# usage: tools/selftest.sh [pattern]     runs every mutant (matching pattern) against the check(s) it targets
# prints one verdict line per (mutant, check); target checks are derived from the file name.
cd "$(dirname "$0")/.."
declare -A MAP=( [F1]="C03 C01" [F2]="C01" [F3]="C04" [F4]="C04" [F5]="C05" [F6]="C05" [F7]="C12" [F8]="C11" [F9]="C11"
  [F10]="C11" [F11]="C07" [F12]="C08" [F13]="C08" [F14]="C08" [F15]="C10" [F16]="C10" [F17]="C17" [F18]="C19" [F19]="C13" [F20]="C12" [F21]="C13" [F22]="C10" [K4]="C10" )
for p in mutants/*${1:-}*.patch; do
  b=$(basename "$p" .patch)
  if [[ $b =~ ^m_c([0-9][0-9])_ ]]; then ids="C${BASH_REMATCH[1]}"
  elif [[ $b =~ ^revert_([FK][0-9]+)_ ]]; then ids="${MAP[${BASH_REMATCH[1]}]}"
  elif [[ $b == m_sort_* ]]; then ids="C01 C02 C13"
  else ids=""; fi
  [ -z "$ids" ] && { echo "SKIP $b (no target)"; continue; }
  tools/runmut.sh "$p" $ids 2>&1 | grep -E "^(KILLED|SURVIVED|ERROR|PATCH-FAILED)" | cut -c1-160
done
