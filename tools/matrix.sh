#!/bin/bash
# usage: tools/matrix.sh      every hand mutant and every seeded change against the quick tier of the check(s) recorded for
# it (mutants: by file name, as in selftest.sh; seeded: meta.json caught_by_quick); one verdict line each.
# JOBS (default 3) runs in parallel; about an hour on 16 cores.
cd "$(dirname "$0")/.."
export VERIF_SHRINK_S=${VERIF_SHRINK_S:-4}   # verdicts only: a short shrink budget
declare -A MAP=( [F1]="C03 C01" [F2]="C01" [F3]="C04" [F4]="C04" [F5]="C05" [F6]="C05" [F7]="C12" [F8]="C11" [F9]="C11"
  [F10]="C11" [F11]="C07" [F12]="C08" [F13]="C08" [F14]="C08" [F15]="C10" [F16]="C10" [F17]="C17" [F18]="C19" [F19]="C13" [F20]="C12" [F21]="C13" [F22]="C10" [K4]="C10" )
jobs=$(mktemp)
for p in mutants/*.patch; do
  b=$(basename "$p" .patch)
  if [[ $b =~ ^m_c([0-9][0-9])_ ]]; then ids="C${BASH_REMATCH[1]}"
  elif [[ $b =~ ^revert_([FK][0-9]+)_ ]]; then ids="${MAP[${BASH_REMATCH[1]}]}"
  elif [[ $b == m_sort_* ]]; then ids="C01 C02 C13"
  else continue; fi
  echo "$p $b $ids" >> "$jobs"
done
for d in seeded/*/; do
  n=$(basename "$d")
  ids=$(/venv/bin/python -c "import json; print(' '.join(json.load(open('$d/meta.json'))['caught_by_quick']))" 2>/dev/null)
  echo "$d/patch.diff seeded/$n $ids" >> "$jobs"
done
one() { p=$1; name=$2; shift 2; tools/runmut.sh "$p" "$@" 2>&1 | grep -E "^(KILLED|SURVIVED|ERROR|PATCH-FAILED)" | sed "s#$(basename "$p")#$name#" | cut -c1-200; }
export -f one
xargs -P "${JOBS:-3}" -L 1 bash -c 'one "$@"' _ < "$jobs"
rm -f "$jobs"
