#!/bin/bash
# usage: tools/matrix.sh      every hand mutant and every seeded change against the quick tier of the check(s) recorded for
# it (mutants: by file name; seeded: meta.json caught_by_quick); one verdict line each.  ~1 h on 16 cores.
cd "$(dirname "$0")/.."
tools/selftest.sh
for d in seeded/*/; do
  n=$(basename "$d")
  ids=$(/venv/bin/python -c "import json,sys; print(' '.join(json.load(open('$d/meta.json'))['caught_by_quick']))" 2>/dev/null)
  tools/runmut.sh "$d/patch.diff" $ids 2>&1 | grep -E "^(KILLED|SURVIVED|ERROR|PATCH-FAILED)" | sed "s#patch.diff#seeded/$n#" | cut -c1-200
done
