#!/usr/bin/env python3
"""Regenerate MANIFEST.json from the table below (keeps it valid at all times)."""
import json, os, sys
HERE = os.path.dirname(os.path.dirname(os.path.abspath(__file__)))
sys.path.insert(0, HERE)

CHECKS = {}   # id -> dict(technique, text, note, design_ref, engine)
NA = {}       # id -> reason

def chk(pid, technique, text, note, ref, engine="hypothesis", category="exploration"):
    CHECKS[pid] = dict(technique=technique, text=text, note=note, ref=ref, engine=engine, category=category)

exec(open(os.path.join(HERE, "tools", "manifest_table.py")).read())

props = [json.loads(l)["id"] for l in open(os.path.join(HERE, "properties.jsonl"))]
checks = []
for pid in props:
    if pid not in CHECKS:
        continue
    c = CHECKS[pid]
    checks.append({
        "property_id": pid,
        "quick_cmd": f"./check {pid} quick",
        "thorough_cmd": f"./check {pid} thorough",
        "evidence_file": f"evidence/{pid}.json",
        "replay_cmd_template": f"./check {pid} --replay {{path}}",
        "engine": c["engine"],
        "level_claimed": {"category": c.get("category", "exploration"), "text": c["text"], "design_ref": c["ref"]},
        "level_note": c["note"],
        "technique": c["technique"],
    })
na = [{"property_id": p, "reason": NA.get(p, "check not implemented yet (work in progress, see DESIGN.md section 8a)")}
      for p in props if p not in CHECKS]
man = {
    "version": 1,
    "setup_cmd": "./setup.sh",
    "hooks": {
        "guard": "XDEPS_VERIF",
        "enable": "no hooks: checks observe xdeps from outside (staged build of the working tree, logging / "
                  "fault-injecting containers, wrapped module attributes); the guard name is reserved only",
        "baseline_off_cmd": "cd /repo && /venv/bin/python -m pytest -ra -q -p no:cacheprovider --timeout=900 "
                            "--continue-on-collection-errors",
        "source_commits": [],
        "add_only": True,
    },
    "engines": [
        {"name": "hypothesis", "path": "vlib/common.py", "serves_properties": sorted(CHECKS),
         "kind_free_text": "Hypothesis 6.168 strategies driven by vlib.common.drive (seeded by VERIF_SEED, "
                           "database=None, deadline=None), collect-then-shrink by root-cause signature"},
        {"name": "enumeration", "path": "checks/", "serves_properties": [p for p in sorted(CHECKS) if "enumeration" in CHECKS[p]["engine"]],
         "kind_free_text": "exhaustive itertools enumeration of small finite sub-domains, sharded over worker processes"},
    ],
    "checks": checks,
    "not_applicable": na,
    "notes": "All checks stage a private build of /repo's working tree (pure and Cython-compiled) in a temp dir, "
             "run sharded workers, write evidence/<id>.json and follow the VIOLATION / KNOWN-FINDING protocol of DESIGN.md 2.5. "
             "Known findings: KNOWN_FINDINGS.txt.",
}
json.dump(man, open(os.path.join(HERE, "MANIFEST.json"), "w"), indent=1)
try:
    import jsonschema
    jsonschema.validate(man, json.load(open(os.path.join(HERE, "schemas", "MANIFEST.schema.json"))))
    print("MANIFEST.json valid:", len(checks), "checks,", len(na), "not_applicable")
except ImportError:
    print("MANIFEST.json written (jsonschema not importable here)")
