#!/bin/bash
# usage: tools/dbg.sh compiled|pure <script.py | -c code>   -- runs python against a freshly staged build (debug aid)
cd "$(dirname "$0")/.."
mode=$1; shift
export PYTHONDONTWRITEBYTECODE=1
exec /venv/bin/python - "$mode" "$@" <<'PY'
import sys, os, subprocess
sys.path.insert(0, os.getcwd())
from vlib.stage import Stage
mode = sys.argv[1]
with Stage(need_compiled=(mode == "compiled"), need_pure=True) as st:
    env = dict(os.environ)
    env["PYTHONPATH"] = os.pathsep.join([st.path(mode), os.getcwd(), os.path.join(os.getcwd(), ".deps")])
    env.setdefault("PYTHONHASHSEED", "0")
    sys.exit(subprocess.call([sys.executable] + sys.argv[2:], env=env))
PY
