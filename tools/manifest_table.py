# one chk(...) per implemented check
TRUST = ("trusted: CPython 3.12, numpy, Cython/gcc used to stage the compiled build, Hypothesis; the harness' own "
         "reference models. Bounded search: never establishes absence (bounds in DESIGN.md section 7).")

chk("C04", "differential testing against mirrored Python evaluation (exhaustive operator grid + Hypothesis term generation)",
    "Exhaustive operator x operand-order x value-palette differential (incl. ints beyond the float range on + - * / // % and "
    "comparisons) plus generated expression trees (depth<=5) and every in-place operator on plain / composite-defined / alias-defined "
    "locations (old array values must not be mutated) and generated SEQUENCES of in-place statements over eight start shapes (value and exact definition after each), each compared by value and type (or exception type) with direct Python evaluation of the mirrored term; "
    "decides the homomorphism on the enumerated grid and samples it on trees.",
    TRUST, "DESIGN.md 4/C04", engine="hypothesis + enumeration")

chk("C01", "model-based testing of generated assignment histories against a pull-model reference interpreter",
    "Hypothesis-generated histories (3..30 operations over nested dict/list/attribute containers, expression / function / knob "
    "tasks, consumer-before-producer order) and deep/wide graph shapes (chains to 5000); after every operation every location is "
    "compared with an independent pull-model re-evaluation in true data-flow order. Fresh (not yet existing) assignment targets and long histories (40..120 operations).",
    TRUST + " Known finding K1 (ordering cycle through a shared nested container) is excluded by construction and counted.",
    "DESIGN.md 4/C01")

chk("C02", "trace-based model testing: generated task graphs, harness-owned start-set permutations, trace oracle with two-sided trigger bounds",
    "Generated histories over logging containers, one observed assignment repeated under drawn permutations of the sort's start set and "
    "several hash seeds; the ordered write/call trace must show the assigned location first, L <= ran <= U, each task once, every true "
    "data-flow edge respected; cyclic graphs: termination and at-most-once. Histories include target-less function tasks, whole-container readers, "
    "generated load dumps and maintenance calls (verify / cleanup / refresh / clone); a sparse sink-heavy family.",
    TRUST + " K1-class and cyclic graphs only get the at-most-once / termination clauses.", "DESIGN.md 4/C02",
    engine="hypothesis")

chk("C03", "stateful differential testing against a freshly built manager plus a two-sided index invariant",
    "Generated register/unregister/assign/load-free histories; after every step the supports of the four reverse indices must equal a "
    "derivation from the tasks' public fields (two-sided, stronger than verify()) and verify() must pass; then every query and the "
    "reaction to follow-up assignments are compared with fresh managers built (in two orders) from only the surviving definitions. Fresh (not yet existing) assignment targets and long histories (40..120 operations).",
    TRUST, "DESIGN.md 4/C03")

chk("C05", "exhaustive node-class x slot enumeration (introspected) plus generated terms, structural and metamorphic oracle",
    "Every concrete node class found by introspection x every operand slot x 11 filler shapes incl. computed keys in the middle of an access chain (enumerated), plus generated terms: "
    "_get_dependencies() must be a set equal (both inclusions) to the AST-derived location set, and perturbing any location through "
    "its ref that changes the mirrored value must hit a reported dependency and update a task defined by the expression. A node class "
    "without a slot-table entry fails the check rather than being skipped. Generated terms are also built with one object per distinct "
    "sub-term and the root and every sub-node object are interrogated in both orders and again under new parents (an answer must not depend "
    "on who asked first); a tuple family places refs inside tuples in key / argument / operand slots and judges the real value before and after each assignment.",
    TRUST, "DESIGN.md 4/C05", engine="hypothesis + enumeration")

chk("C06", "all-pairs testing of generated paths and systematically derived near-misses against structural path equality",
    "Pools of generated access paths plus derived near-misses (type confusion, item/attribute, prefix, 1-tuple, -1/-2, keys that spell the "
    "rest of a path); every ordered pair of independently built refs is compared with structural path equality through ==, !=, hash, dict "
    "and set membership (identifiers include NFKC-unstable names next to their normal forms); 10^5-key families and five structured families "
    "(reordered steps, repeated step, index grid, item/attribute mixes) must resolve every ref to its own entry and show >= 99 % distinct hash "
    "values; identical-structure expressions must be equal and hash equally.",
    TRUST, "DESIGN.md 4/C06")

chk("C12", "model-based round-trip testing: generated managers covering every node class, pickled, then differential follow-up histories on original and copy",
    "Generated histories plus a decoration phase that uses every expression node class; pickle.loads(pickle.dumps(manager)) must succeed, "
    "the copy must have structurally identical definitions (dump text and operand-level read-back), pass verify() and a two-sided index "
    "invariant, own distinct containers and refs; follow-up assignments applied to both, or to one side only, are compared with one pull "
    "model per side after every step (identical behaviour and independence). A second, model-free differential runs on the manager's own default "
    "container (items and attributes mixed; manager frozen when pickled; setter generated before pickling; container still empty; container "
    "reachable from itself directly, through a child namespace or through a list): same contents through both views, same exception types, "
    "independence, link structure restored by identity. Every restored target must be found by a freshly built ref and every restored "
    "expression must equal, hash like and be found by the same expression built afresh on the copy.",
    TRUST + " Only expression tasks over picklable harness containers.", "DESIGN.md 4/C12")

chk("C11", "round-trip testing of generated expression programs (eval(str(e))) and model-based differential testing of dump/load and copy_expr_from",
    "Generated terms over every node class with adversarial item keys (quotes, brackets, keys containing container labels or printed "
    "paths, ints): eval(str(e)) in a namespace of the container labels must rebuild a ref that is ==, hashes equally, has the same "
    "operand-level structure, dependency set and value (two valuations, compared with mirrored Python). Generated histories: "
    "load(dump()) (also via JSON) into a fresh manager gives the same definitions, passes verify()/index invariant, answers queries "
    "identically and follows the pull model under follow-up assignments. copy_expr_from in plain / overwrite=False / label-rename / "
    "nested-rebinding modes - the rebinding modes also with overwrite=False and with a target that has definitions of its own - yields exactly the model's rebound definitions, leaves the source untouched and follows the model.",
    TRUST + " Known findings K2 (math.floor/ceil/trunc print as bare names) and K3 (_eq/_neq print as ==/!=) are excluded by "
    "construction and replayed as exemplars; nested rebinding puts the copied tasks into C01's K1 class, so values are compared "
    "only for the other modes.", "DESIGN.md 4/C11")

chk("C13", "translation validation by differential execution: generated function vs assignment through a twin manager vs pull model, plus a structural check of the generated source",
    "For generated acyclic managers and drawn subsets (<=4) of leaf references: gen_fun(...)(*values) in world A, the same assignments "
    "through the manager in twin world B and the pull model must leave identical containers (ZeroDivisionError proviso counted); the "
    "mk_fun source must consist of the argument assignments followed by 'target = expr' lines whose target set T satisfies L <= T <= U, "
    "each once, ordered consistently with every true data-flow edge. Further functions are generated (same manager, twin manager with the same "
    "labels) before the first is called; association probes (drawn bracketing, non-associative floats). Each case validates one generated program.",
    TRUST + " K1-class managers, math.floor/ceil/trunc and definitions with captured non-finite literals are excluded and counted.",
    "DESIGN.md 4/C13")

chk("C17", "stateful model-based testing: generated histories with freeze/unfreeze phases, model-side prediction of which calls change the graph, snapshot equality for rejected calls",
    "Generated histories frozen at a drawn point and subjected to every mutating and non-mutating API call (assign value / expression, "
    "in-place, unregister, container overwrite, register / unregister tasks, load in three forms, copy_expr_from, refresh, verify, cleanup, "
    "clone): a call the model says would change the expression graph must raise ValueError and leave dump(), index supports, all query "
    "answers and contents identical; other calls must succeed, leave the graph unchanged and propagate values (pull-model oracle). After "
    "unfreeze the history continues against the model that skipped exactly the rejected calls, and the final queries equal a fresh manager's. "
    "Redundant freeze / unfreeze calls are drawn (the flag does not nest).",
    TRUST, "DESIGN.md 4/C17")

chk("C18", "fault injection at every crash point of a generated update, differential against a fault-free twin execution",
    "Generated task graphs over fault-injecting containers; the fault-free event sequence W (container writes, user-function calls, "
    "function-task actions) of one observed assignment is recorded on a twin; for every crash point k (all k when |W| <= 8, else 0, "
    "last, middle and drawn ones) a fresh world fails at event k with a drawn exception type (private class, KeyError, AttributeError, IndexError, ValueError, RuntimeError, TypeError, OSError): the injected exception object must reach the caller, the observed "
    "events must be exactly W[0..k], the contents must equal the pre-state plus the writes of W[:k], dump()/index supports/verify()/"
    "queries must equal the twin's, and a fault-free repeat must reproduce the twin's final contents; one more world takes 2-3 faulty "
    "attempts in a row before the repeat. Fresh (not yet existing) assignment targets; a two-stage family: a faulty first attempt, then a different assignment failing at each of its own crash points, against a twin that took the same first fault.",
    TRUST + " Linear knobs (incremental, not idempotent by design) and in-place observed assignments are outside the check.",
    "DESIGN.md 4/C18", category="fault_enumeration")

chk("C07", "exhaustive small-scope enumeration plus generated update/lookup scripts against a linear-scan reference",
    "All 364 index columns over a 3-name alphabet up to length 5 x every row form (present / absent names, positive / negative / "
    "out-of-range counts, offsets landing inside, string and tuple spelling) through table[col,row], rows.get_index and table // row, "
    "before and after every single-cell assignment to the index column (by position and by name); plus generated scripts interleaving "
    "whole-column assignment (item / attribute), cell assignment, write-by-name, new and deleted columns with lookups and label checks on tables of 0..8 and (one in five) 9..64 rows "
    "(get_index_unique labels resolve to their own row and are what show() prints). Oracle: linear scan of the model's current names. Positions are also given from the end; names may hold a single separator character (mq:1, x->y).",
    "trusted: CPython 3.12, numpy, Hypothesis; the harness' linear-scan reference. Exhaustive only for the stated small scope; scripts "
    "are bounded search (<= 8 rows, <= 25 steps).", "DESIGN.md 4/C07", engine="hypothesis + enumeration")

chk("C08", "exhaustive small-scope selector enumeration under per-worker hash seeds, plus generated tables and selector pairs, against a naive reference selector",
    "All 364 index columns over a 3-name alphabet up to length 5 x every selector form (positions, lists, masks, name lists, regexes in "
    "either case with positive / negative / out-of-range counts and shifts, closed / open / count-and-shift-addressed name spans, spans "
    "over another column, closed and one- or two-sided-open value ranges on float and int columns, None, slices, empty) through rows[], "
    "rows.indices[] and rows.mask[]; the regex family runs in every worker, each under its own PYTHONHASHSEED (8 quick / 16 thorough). "
    "Generated larger tables (<= 40 rows), name pools with case-only duplicates and regex metacharacters (selectors without count), a float column holding NaN, and selector pairs check rows[s1,s2] == rows[s1].rows[s2] == reference composition. Results are "
    "read through a hidden position column, so order and multiplicity are compared.",
    "trusted: CPython 3.12, numpy, Hypothesis; the harness' reference selector (linear scans, re.fullmatch). Names avoid separators, regex "
    "metacharacters and case-only duplicates; shifts leaving the table are excluded and counted.", "DESIGN.md 4/C08",
    engine="hypothesis + enumeration + subprocess-differential")

chk("C14", "stateful (pool-based) generated derivation scripts with a per-step structural invariant and before/after snapshots of the source",
    "Generated scripts over a pool of tables (checked constructors with float / int / string / object / 2-D columns and scalar entries, "
    "index 'name' or another column, 0..6 and 17..40 rows) applying rows[...], cols[...] (names, expressions, [:] / None), _select_cols, _select_rows, the "
    "checked constructor with an explicit column list, +, Table.concatenate, * k, _copy(), _t, head / tail / reverse to any pool member (views of views, copies of copies) interleaved with in-place and new column assignments: "
    "after every step every pool member must be rectangular (each listed column resolves with length len(table), index listed); around "
    "every derivation a deep snapshot of the source must be unchanged, scalars must be carried over by row / column selections and the "
    "derived content must be what the operation denotes; column expressions equal the element-wise numpy computation. Two fixed column expressions are asked again on every table after every step and compared with that table's current columns.",
    "trusted: CPython 3.12, numpy, Hypothesis. Column lists name each column once; exceptions from a derivation are 'no table produced' "
    "(counted). Bounded search: <= 12 pool members, <= 25 steps.", "DESIGN.md 4/C14")

chk("C16", "property-based testing against construction-known factorizations, analytic Jacobians and an independent evaluation of the user function",
    "SVD.lstsq on matrices built as U diag(s) V^T (shapes 1..6 x 1..6, rank deficient, scaled, rcond and cutoff settings given to the "
    "constructor or the call) must equal the sum over the kept singular triplets computed from the construction factors (1e-9 relative); "
    "consistent well-conditioned linear problems (square / tall / wide, knob and target weights, Broyden on / off) must be solved by the "
    "first step() up to finite-difference rounding and by solve(); weight and rescale_x mappings must be mutual inverses in both "
    "directions; every merit-function view (return_scalar x rescale_x) must return the value and Jacobian of that same view as derived "
    "analytically (weights, chain rule, 2 f^T J). A structurally singular family (zero matrix, zero rows / columns, rcond default / 0 / None) requires the finite minimum-norm solution; the public pair view.set_x / view.get_x is checked on every view.",
    "trusted: CPython 3.12, numpy (QR used to draw orthonormal factors), Hypothesis; the harness' analytic Jacobians. Singular values are "
    "kept a factor 2 away from the rcond threshold and 1.5 apart. Bounded search.", "DESIGN.md 4/C16")

chk("C09", "property-based testing of generated matching problems with an independent re-evaluation of the user function and a log-row-0 restore oracle",
    "Generated problems (linear / quadratic / trigonometric, consistent / inconsistent / rank-deficient, targets reachable / on a limit / "
    "behind the limits / far / arbitrary, weights, tolerances, n_steps_max 1..8, Broyden variants, disabled knobs and targets, transient "
    "action faults, restore_if_fail on / off, knobs / targets inactive at construction and enabled later) with prologues (step, clear_log, knobs moved then disabled, an earlier successful solve): if "
    "solve() returns, the harness' own evaluation of the user function at the container's knobs is within every active tolerance; if it "
    "raises with restore_if_fail, knobs and active flags equal log row 0 (bit-exact for unit weights, 4 ulp otherwise).",
    "trusted: CPython 3.12, numpy, Hypothesis; the harness' numpy user functions. Bounded search (n <= 4, m <= 5).", "DESIGN.md 4/C09")

chk("C10", "property-based testing of generated step plans with a log-wide invariant, a write trace of the knob container and a metamorphic twin",
    "Generated problems whose solution lies outside or far beyond per-knob limits, per-knob max_step (several exceeded at once), unit and "
    "other knob weights, knobs / targets disabled persistently or through step()'s temporary arguments; a plan of 1..4 step() calls: every "
    "log row and the container stay inside the closed limits, every Jacobian-step row moves each knob by at most its max_step, every write "
    "the logging container saw to a disabled knob carries its old value, temporaries are active again afterwards, and a twin problem whose "
    "disabled targets are replaced by other functions / values / weights yields a bit-identical knob trajectory and penalties. Families include a "
    "strictly positive one with optimize_log targets.",
    "trusted: CPython 3.12, numpy, Hypothesis. Tolerances: limits exact (4 ulp for weighted knobs), max_step + 2 ulp (8 ulp weighted). "
    "Bounded search (n <= 4, m <= 5, <= 16 Jacobian steps per case).", "DESIGN.md 4/C10")

chk("C15", "stateful script testing of one optimizer object with an independent re-evaluation of every logged row",
    "Generated scripts of step / solve (incl. failing) / reload(row | tag) / tag / enable / disable / clear_log calls, disable-step-enable-step and solve-a-sub-problem-then-change-it episodes on one Optimize over a "
    "generated deterministic problem: after each step(take_best=True) that returns, the harness' evaluation is within all active "
    "tolerances or the container holds a minimum-penalty row of that call and the independently computed end penalty does not exceed the "
    "start penalty; finally EVERY row of the log is reloaded: knobs (bit-exact / 4 ulp) and active flags must be the row's, and the "
    "harness' own (f - target) * weight norm under the row's target mask must reproduce the logged penalty (rtol 1e-12) and target values.",
    "trusted: CPython 3.12, numpy, Hypothesis; the harness' numpy user functions. No action faults (outside this property's quantifier). "
    "Bounded search (<= 10 calls, n <= 4, m <= 5).", "DESIGN.md 4/C15")

chk("C19", "grammar-based generation (own walker over calc_grammar) with a three-way differential: deferred vs immediate vs Python evaluation of the derivation tree",
    "Strings derived from the MAD-X grammar (every production, every NUMBER form, dotted / underscore / % / leading-dot names, "
    "element->attribute, 1- and 2-argument functions, random inline whitespace) in natural and fully parenthesised rendering, in item and "
    "attr element mode: the deferred expression over refs, the immediate evaluation over plain data and the harness' Python evaluation "
    "of the derivation tree must agree bit for bit or all fail; after changing variables and element attributes through the manager they "
    "must agree again and a variable defined as the deferred expression must hold the immediate value (push path); then every element is "
    "REPLACED by a new object through the manager and all of it is compared once more. An integer-valued family (ints up to 10**400, + - * / and signs), -0.0 and copysign, and every deferred expression asked twice per stage (same answer or same failure).",
    TRUST + " When the immediate evaluation hits a division by zero nothing is required of the deferred one (documented NaN deviation); "
    "if both fail the exception types may differ (evaluation order).", "DESIGN.md 4/C19")

chk("C20", "configuration-differential testing: one generated corpus interpreted under {compiled, pure} x hash seeds, canonical transcripts compared in the parent",
    "The parent generates one corpus from VERIF_SEED (manager histories, pickle and dump/load programs, expression terms over adversarial "
    "keys, definitions through numpy- and Python-typed scalar item keys, assignments of expressions with several unevaluable inputs); child processes interpret every program under the Cython build of the working tree and the pure-Python build, each under "
    "several PYTHONHASHSEED values (4 configurations quick, 16 thorough) and emit a canonical transcript after every operation (contents, "
    "sorted dump(), index supports, exception type names, printed forms, values with types, dependency sets, ==/hash verdicts); all "
    "transcripts of a program must be identical; a mismatch is minimised by greedy re-interpretation under the two differing configurations.",
    TRUST + " K1-class programs, attribute names colliding with ref attributes and container insertion order are outside the comparison.",
    "DESIGN.md 4/C20", engine="hypothesis + subprocess-differential")
