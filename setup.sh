#!/bin/bash
# Offline setup: make hypothesis and jsonschema importable for the checks.
# Nothing is fetched; packages come from the local wheelhouse and are installed
# into /verif/.deps (the repository's /venv is left untouched).
cd "$(dirname "$0")"
PY=${VERIF_PYTHON:-/venv/bin/python}
need=""
PYTHONPATH="$PWD/.deps" "$PY" -c "import hypothesis" 2>/dev/null || need="$need hypothesis"
PYTHONPATH="$PWD/.deps" "$PY" -c "import jsonschema" 2>/dev/null || need="$need jsonschema"
if [ -n "$need" ]; then
  PIP_NO_INDEX=1 "$PY" -m pip install --no-index --find-links /opt/veriftools/wheels \
      --target "$PWD/.deps" $need || exit 1
fi
PYTHONPATH="$PWD/.deps" "$PY" -c "import hypothesis, jsonschema, numpy, scipy, lark, Cython; print('setup ok: hypothesis', hypothesis.__version__)"
