"""Parent runner: stage, shard, merge, evidence, VIOLATION / KNOWN-FINDING protocol.

usage: python -m vlib.run <ID> quick|thorough
       python -m vlib.run <ID> --replay <path>
exit 0 = held on everything explored, 1 = unlisted violation, 2 = harness error
"""
import glob
import hashlib
import json
import os
import subprocess
import sys
import tempfile
import time
from collections import Counter

from .stage import Stage, StageError, VERIF
from .common import jsonable

# build used by the workers of each property, (quick shards, thorough shards)
PROPS = {
    "C01": ("compiled", 8, 16), "C02": ("compiled", 8, 16), "C03": ("compiled", 8, 16),
    "C04": ("compiled", 8, 16), "C05": ("compiled", 8, 16), "C06": ("compiled", 9, 16),
    "C07": ("pure", 8, 16), "C08": ("pure", 8, 16), "C09": ("pure", 8, 16),
    "C10": ("pure", 8, 16), "C11": ("compiled", 8, 16), "C12": ("compiled", 8, 16),
    "C13": ("compiled", 8, 16), "C14": ("pure", 8, 16), "C15": ("pure", 8, 16),
    "C16": ("pure", 8, 16), "C17": ("compiled", 8, 16), "C18": ("compiled", 8, 16),
    "C19": ("compiled", 8, 16), "C20": ("compiled", 8, 16),
}
NEEDS_BOTH = {"C20"}
# properties quantified over the hash seed: every worker gets its own PYTHONHASHSEED
SEED_PER_SHARD = {"C08", "C02"}
WORKER_TIMEOUT = {"quick": 900, "thorough": 5400}


def load_known(prop):
    """-> (known {sig: (replay, text)}, fixed [text])"""
    known, fixed = {}, []
    path = os.path.join(VERIF, "KNOWN_FINDINGS.txt")
    if not os.path.exists(path):
        return known, fixed
    for line in open(path):
        line = line.strip()
        if not line or line.startswith("#"):
            continue
        kind, _, rest = line.partition(":")
        rest = rest.strip()
        toks = rest.split()
        kv = {}
        i = 0
        while i < len(toks) and "=" in toks[i] and toks[i].split("=", 1)[0] in ("property", "sig", "replay"):
            k, v = toks[i].split("=", 1)
            kv[k] = v
            i += 1
        text = " ".join(toks[i:])
        if kv.get("property") != prop:
            continue
        if kind == "known":
            known[kv["sig"]] = (kv.get("replay"), text)
        elif kind == "fixed":
            fixed.append(text)
    return known, fixed


def spawn(stage_paths, mode, payload, workdir, name, hashseed="0"):
    argf = os.path.join(workdir, name + ".args.json")
    outf = os.path.join(workdir, name + ".out.json")
    payload = dict(payload, out=outf, mode=mode, stage_paths=stage_paths)
    json.dump(payload, open(argf, "w"))
    env = dict(os.environ)
    deps = os.path.join(VERIF, ".deps")
    env["PYTHONPATH"] = os.pathsep.join(
        [stage_paths[mode], VERIF] + ([deps] if os.path.isdir(deps) else []))
    env["PYTHONHASHSEED"] = str(hashseed)
    env["PYTHONDONTWRITEBYTECODE"] = "1"
    env["OMP_NUM_THREADS"] = "1"
    env["OPENBLAS_NUM_THREADS"] = "1"
    env["MKL_NUM_THREADS"] = "1"
    logf = open(os.path.join(workdir, name + ".log"), "w")
    p = subprocess.Popen([sys.executable, "-m", "vlib.worker", argf], env=env,
                         cwd=VERIF, stdout=logf, stderr=subprocess.STDOUT)
    return p, outf, logf


HUNG = []      # names of workers that did not finish (watchdog) or died: their part of the search is inconclusive


def collect(procs, timeout, tolerant=False):
    """wait for workers -> list of result dicts; raises RuntimeError on harness error.
    tolerant: a worker that hangs or dies yields None (recorded in HUNG) instead of aborting the run, so that a
    violation found by another worker is still reported; the caller decides what an incomplete, quiet run means."""
    t_end = time.time() + timeout
    results = []
    for p, outf, logf in procs:
        left = max(1, t_end - time.time())
        try:
            p.wait(timeout=left)
        except subprocess.TimeoutExpired:
            if not tolerant:
                for q, _, _ in procs:
                    q.kill()
                raise RuntimeError("worker watchdog expired (inconclusive)")
            p.kill()
            p.wait()
            HUNG.append(os.path.basename(outf) + ": watchdog expired")
            results.append(None)
            continue
        logf.close()
        if not os.path.exists(outf):
            log = open(logf.name).read()[-3000:]
            if tolerant:
                HUNG.append(os.path.basename(outf) + f": died without output (rc={p.returncode}) " + log[-300:])
                results.append(None)
                continue
            raise RuntimeError(f"worker died without output (rc={p.returncode}):\n{log}")
        r = json.load(open(outf))
        if not r.get("ok"):
            if tolerant:
                HUNG.append(os.path.basename(outf) + ": worker error " + r.get("error", "?")[-1500:])
                results.append(None)
                continue
            raise RuntimeError("worker error:\n" + r.get("error", "?"))
        results.append(r)
    return results


def merge(results):
    tot = {"evaluations": 0, "nontrivial": set(), "classes": Counter(), "excluded": Counter(),
           "known_hits": Counter(), "samples": [], "failures": [], "notes": [],
           "exhaustive": {}, "extra": {}}
    for r in results:
        s = r["stats"]
        tot["evaluations"] += s["evaluations"]
        tot["nontrivial"].update(s["nontrivial"])
        tot["classes"].update(s["classes"])
        tot["excluded"].update(s["excluded"])
        tot["known_hits"].update(s["known_hits"])
        tot["failures"].extend(s["failures"])
        for n in s["notes"]:
            if n not in tot["notes"]:
                tot["notes"].append(n)
        for k, v in s["exhaustive"].items():
            tot["exhaustive"][k] = tot["exhaustive"].get(k, True) and v
        for k, v in s["extra"].items():
            if isinstance(v, (int, float)) and not isinstance(v, bool):
                tot["extra"][k] = tot["extra"].get(k, 0) + v
            elif isinstance(v, dict):
                d = tot["extra"].setdefault(k, {})
                for kk, vv in v.items():
                    if isinstance(vv, (int, float)) and not isinstance(vv, bool):
                        d[kk] = d.get(kk, 0) + vv
                    else:
                        d[kk] = vv
            else:
                tot["extra"][k] = v
    # round-robin samples from shards
    pools = [list(r["stats"]["samples"]) for r in results]
    # spread over shards and, within a shard, over its sample list (domains differ along it)
    for pl in pools:
        pl[:] = pl[::-1]
    while any(pools) and len(tot["samples"]) < 12:
        for i, pl in enumerate(pools):
            if pl and len(tot["samples"]) < 12:
                tot["samples"].append(pl.pop(i % len(pl)))
    return tot


def write_found(prop, failure):
    d = os.path.join(VERIF, "replays", "found", prop)
    os.makedirs(d, exist_ok=True)
    body = {"property": prop, "sig": failure["sig"], "detail": failure["detail"],
            "case": failure["case"]}
    h = hashlib.sha1(json.dumps(body["case"], sort_keys=True, default=repr).encode()).hexdigest()[:12]
    path = os.path.join(d, h + ".json")
    json.dump(body, open(path, "w"), indent=1, default=repr)
    return path


def finish(prop, tier, seed, mod, mode, assumptions, tot, corpus, nshards, violations, known_lines, t0):
    wall = time.time() - t0
    n_nt = len(tot["nontrivial"])
    cov = {
        "evaluations": int(tot["evaluations"]),
        "distinct_nontrivial": int(n_nt),
        "rule": getattr(mod, "RULE", ""),
        "samples": tot["samples"][:12] or [],
        "classes": dict(sorted(tot["classes"].items())),
        "excluded_counted": dict(tot["excluded"]),
        "known_finding_hits": dict(tot["known_hits"]),
        "regression_replays": len(corpus),
        "shards": nshards,
        "build": mode,
        "engine": getattr(mod, "ENGINE", "hypothesis"),
    }
    if tot["exhaustive"]:
        cov["exhaustive_subspaces"] = tot["exhaustive"]
        cov["exhaustive"] = bool(getattr(mod, "EXHAUSTIVE_OVERALL", False)
                                 and all(tot["exhaustive"].values()))
    if tot["extra"]:
        cov.update(tot["extra"])
    if tot["notes"]:
        cov["notes"] = tot["notes"]
    ev = {
        "property_id": prop, "tier": tier, "seed": seed,
        "level": getattr(mod, "LEVEL", "exploration"),
        "coverage": cov,
        "assumptions": assumptions,
        "wall_s": round(wall, 2),
        "violations": len(violations),
    }
    evdir = os.environ.get("VERIF_EVIDENCE_DIR") or os.path.join(VERIF, "evidence")
    os.makedirs(evdir, exist_ok=True)
    evpath = os.path.join(evdir, prop + ".json")
    with open(evpath, "w") as fh:
        json.dump(jsonable(ev), fh, indent=1, sort_keys=True)
    try:
        import jsonschema
        schema = json.load(open(os.path.join(VERIF, "schemas", "EVIDENCE.schema.json"))) \
            if os.path.exists(os.path.join(VERIF, "schemas", "EVIDENCE.schema.json")) else None
        if schema:
            jsonschema.validate(json.load(open(evpath)), schema)
    except ImportError:
        pass
    except Exception as e:
        print(f"HARNESS-ERROR evidence does not validate: {e}")
        return 2

    print(f"{prop} {tier} seed={seed}: {cov['evaluations']} evaluations, "
          f"{n_nt} distinct non-trivial, {len(violations)} violation(s), "
          f"{wall:.1f}s, build={mode}")
    if n_nt < 2 or cov["evaluations"] < 1 or not cov["samples"]:
        print("HARNESS-ERROR vacuous run (too few non-trivial cases)")
        return 2
    timed_out = int(tot["extra"].get("cases_timed_out", 0) or 0)
    if (HUNG or timed_out) and not violations:
        print(f"HARNESS-ERROR part of the search did not finish (inconclusive): {len(HUNG)} worker(s) "
              f"[{'; '.join(h[:200] for h in HUNG)}], {timed_out} case(s) over the per-case limit")
        return 2
    if HUNG or timed_out:
        print(f"NOTE: {len(HUNG)} worker(s) and {timed_out} case(s) did not finish; the violations below come from the rest")
    missing = [c for c in getattr(mod, "REQUIRED_CLASSES", []) if not tot["classes"].get(c)]
    if missing and not violations:
        print(f"HARNESS-ERROR generator did not cover required case classes: {missing}")
        return 2
    for sig, text in known_lines:
        print(f"KNOWN-FINDING: property={prop} {text} [sig={sig}]")
    for f, path in violations:
        print(f"  {f['sig']}: {json.dumps(f['detail'], default=repr)[:1200]}")
        print(f"VIOLATION property={prop} replay={path}")
    return 1 if violations else 0


def main(argv):
    if len(argv) < 2:
        print(__doc__)
        return 2
    prop = argv[0].upper()
    if prop not in PROPS:
        print(f"unknown property {prop}")
        return 2
    replay_path = None
    if argv[1] == "--replay":
        replay_path = argv[2]
        tier = "quick"
    else:
        tier = argv[1]
    if tier == "auto":
        tier = os.environ.get("VERIF_TIER", "quick")
    if tier not in ("quick", "thorough"):
        print(f"unknown tier {tier}")
        return 2
    try:
        seed = int(os.environ.get("VERIF_SEED", "1"))
    except ValueError:
        seed = 1
    t0 = time.time()
    mode, qsh, tsh = PROPS[prop]
    nshards = qsh if tier == "quick" else tsh
    nshards = int(os.environ.get("VERIF_SHARDS", nshards))
    known, fixed = load_known(prop)
    known_sigs = sorted(known)
    mod = __import__("checks." + prop.lower(), fromlist=["x"])

    stage = None
    workdir = tempfile.mkdtemp(prefix="xdv_work_")
    try:
        try:
            stage = Stage(need_compiled=(mode == "compiled" or prop in NEEDS_BOTH),
                          need_pure=True)
        except StageError as e:
            print(f"HARNESS-ERROR staging failed: {e}")
            return 2
        stage_paths = {"pure": stage.pure, "compiled": stage.compiled}
        assumptions = list(getattr(mod, "ASSUMPTIONS", []))
        if mode == "compiled" and stage.compiled is None:
            if prop in NEEDS_BOTH:
                print("HARNESS-ERROR cannot cythonize refs.py:\n" + str(stage.compile_error))
                return 2
            mode = "pure"
            assumptions.append("cythonizing the working tree's refs.py failed; "
                               "this run used the pure-Python build only")
            print("NOTE: compiled build unavailable, using pure build:\n"
                  + str(stage.compile_error)[-500:])
        base = {"prop": prop, "tier": tier, "seed": seed, "known_sigs": known_sigs,
                "nshards": nshards}

        # ---- differential properties (one corpus, many configurations; compared in the parent)
        if getattr(mod, "DIFFERENTIAL", False):
            from .diffrun import run_differential
            if replay_path is not None:
                body = json.load(open(replay_path))
                case = body["case"] if isinstance(body, dict) and "case" in body else body
                st = run_differential(mod, prop, "thorough" if os.environ.get("VERIF_TIER") == "thorough" else "quick", seed,
                                      stage_paths, workdir, spawn, collect, WORKER_TIMEOUT["quick"], only_cases=[case])
                if not st["failures"]:
                    print(f"replay {replay_path}: property {prop} holds on this case")
                    return 0
                f = st["failures"][0]
                print(f"replay {replay_path}: {f['sig']}: {json.dumps(f['detail'], default=repr)[:1500]}")
                print(f"VIOLATION property={prop} replay={replay_path}")
                return 1
            regression = []
            for path in sorted(glob.glob(os.path.join(VERIF, "replays", prop, "*.json"))):
                regression.append(json.load(open(path))["case"])
            st = run_differential(mod, prop, tier, seed, stage_paths, workdir, spawn, collect, WORKER_TIMEOUT[tier],
                                  regression=regression)
            results = [{"stats": st}]
            corpus = regression
            nshards = len(mod.configs(tier)) * mod.parts(tier)
            violations = []
            known_lines = []
            tot = merge(results)
            tot["samples"] = st["samples"][:12]
            seen = set()
            for f in tot["failures"]:
                if f["sig"] in known:
                    known_lines.append((f["sig"], known[f["sig"]][1]))
                    continue
                if f["sig"] in seen:
                    continue
                seen.add(f["sig"])
                violations.append((f, write_found(prop, f)))
            return finish(prop, tier, seed, mod, "compiled+pure", assumptions, tot, corpus, nshards, violations, known_lines, t0)

        # ---- single replay mode
        if replay_path is not None:
            body = json.load(open(replay_path))
            case = body["case"] if isinstance(body, dict) and "case" in body else body
            p = spawn(stage_paths, mode, dict(base, what="replay", shard=0,
                                              cases=[{"name": replay_path, "case": case}],
                                              known_sigs=[]),
                      workdir, "replay")
            r = collect([p], WORKER_TIMEOUT["quick"])[0]
            f = r["replays"][0]["failure"]
            if f is None:
                print(f"replay {replay_path}: property {prop} holds on this case")
                return 0
            print(f"replay {replay_path}: {f['sig']}: {json.dumps(f['detail'], default=repr)[:1500]}")
            print(f"VIOLATION property={prop} replay={replay_path}")
            return 1

        # ---- regression corpus + known exemplars (seconds)
        corpus = []
        for path in sorted(glob.glob(os.path.join(VERIF, "replays", prop, "*.json"))):
            body = json.load(open(path))
            corpus.append({"name": os.path.relpath(path, VERIF), "case": body["case"],
                           "sig": body.get("sig"), "expect": body.get("expect", "pass")})
        procs = []
        if corpus:
            procs.append(spawn(stage_paths, mode, dict(base, what="replay", shard=0,
                                                       cases=corpus, known_sigs=[]),
                               workdir, "corpus"))
        for sh in range(nshards):
            procs.append(spawn(stage_paths, mode, dict(base, what="run", shard=sh),
                               workdir, f"shard{sh}",
                               hashseed=str(sh if prop in SEED_PER_SHARD else sh % 4)))
        results = collect(procs, WORKER_TIMEOUT[tier], tolerant=True)
        violations = []
        known_lines = []
        if corpus:
            rep = results.pop(0)
            if rep is None:
                raise RuntimeError("the regression corpus worker did not finish: " + "; ".join(HUNG))
            for item, out in zip(corpus, rep["replays"]):
                f = out["failure"]
                if item["expect"] == "known":
                    sig = item["sig"]
                    if f is not None and f["sig"] == sig and sig in known:
                        known_lines.append((sig, known[sig][1]))
                    elif f is None:
                        print(f"NOTE: known finding {sig} no longer reproduces on "
                              f"{item['name']} (turn its line into 'fixed:')")
                    else:
                        f["case"] = item["case"]
                        violations.append((f, os.path.join(VERIF, item["name"])))
                else:
                    if f is not None:
                        f["case"] = item["case"]
                        violations.append((f, os.path.join(VERIF, item["name"])))
        results = [r for r in results if r is not None]
        if not results:
            raise RuntimeError("no worker finished: " + "; ".join(HUNG))
        tot = merge(results)
        for sig, n in tot["known_hits"].items():
            if sig in known and not any(s == sig for s, _ in known_lines):
                known_lines.append((sig, known[sig][1]))
        seen = set()
        for f in tot["failures"]:
            if f["sig"] in known:
                continue
            key = f["sig"]
            if key in seen:
                continue
            seen.add(key)
            violations.append((f, write_found(prop, f)))

        return finish(prop, tier, seed, mod, mode, assumptions, tot, corpus, nshards, violations, known_lines, t0)
    except RuntimeError as e:
        print(f"HARNESS-ERROR {e}")
        return 2
    finally:
        if stage is not None:
            stage.cleanup()
        import shutil
        shutil.rmtree(workdir, ignore_errors=True)


if __name__ == "__main__":
    sys.exit(main(sys.argv[1:]))
