"""Stage a private build of xdeps from the current working tree of $VERIF_REPO.

pure/     xdeps copied without any extension module  -> pure-Python fallback
compiled/ xdeps copied + refs.py cythonized and built with gcc

The stage lives in a fresh temporary directory outside /repo and /verif and is
removed by the caller (Stage.cleanup / context manager).  A content-addressed
cache of the compiled extension (keyed by the sha256 of refs.py, the python
version and the cython version) is kept under /verif/.cache; it is optional,
rebuilt when absent, and therefore never *needed* by a registered command.
"""
import hashlib
import os
import shutil
import subprocess
import sys
import sysconfig
import tempfile
import fcntl

VERIF = os.path.dirname(os.path.dirname(os.path.abspath(__file__)))
REPO = os.environ.get("VERIF_REPO", "/repo")
CACHE = os.path.join(VERIF, ".cache")


class StageError(Exception):
    pass


def _copy_py(src, dst):
    for root, dirs, files in os.walk(src):
        dirs[:] = [d for d in dirs if d != "__pycache__"]
        rel = os.path.relpath(root, src)
        os.makedirs(os.path.join(dst, rel), exist_ok=True)
        for f in files:
            if f.endswith(".py"):
                shutil.copy2(os.path.join(root, f), os.path.join(dst, rel, f))


def _ext_suffix():
    return sysconfig.get_config_var("EXT_SUFFIX")


def _build_ext(refs_py, out_so, workdir):
    """cythonize + gcc; returns None on success, message on failure."""
    cfile = os.path.join(workdir, "refs.c")
    tmp_py = os.path.join(workdir, "refs.py")
    shutil.copy2(refs_py, tmp_py)
    cython = os.path.join(os.path.dirname(sys.executable), "cython")
    cmd = [cython, "-3", tmp_py, "-o", cfile]
    if not os.path.exists(cython):
        cmd = [sys.executable, "-m", "cython", "-3", tmp_py, "-o", cfile]
    p = subprocess.run(cmd, capture_output=True, text=True)
    if p.returncode != 0:
        return "cython failed: " + (p.stderr or p.stdout)[-2000:]
    inc = sysconfig.get_paths()["include"]
    p = subprocess.run(
        ["gcc", "-shared", "-fPIC", "-O1", "-w", "-I" + inc, cfile, "-o", out_so],
        capture_output=True, text=True)
    if p.returncode != 0:
        return "gcc failed: " + (p.stderr or p.stdout)[-2000:]
    return None


def _cache_key(refs_py):
    import Cython
    h = hashlib.sha256()
    h.update(open(refs_py, "rb").read())
    h.update(sys.version.encode())
    h.update(Cython.__version__.encode())
    return h.hexdigest()[:32]


def _prune_cache(keep=6):
    try:
        ents = [os.path.join(CACHE, e) for e in os.listdir(CACHE) if e.endswith(".so")]
        ents.sort(key=os.path.getmtime, reverse=True)
        for e in ents[keep:]:
            os.remove(e)
    except OSError:
        pass


class Stage:
    def __init__(self, need_compiled=True, need_pure=True):
        src = os.path.join(REPO, "xdeps")
        if not os.path.isdir(src):
            raise StageError(f"{src} not found")
        self.root = tempfile.mkdtemp(prefix="xdv_stage_")
        self.pure = None
        self.compiled = None
        self.compile_error = None
        try:
            if need_pure:
                self.pure = os.path.join(self.root, "pure")
                _copy_py(src, os.path.join(self.pure, "xdeps"))
            if need_compiled:
                comp = os.path.join(self.root, "compiled")
                _copy_py(src, os.path.join(comp, "xdeps"))
                so = os.path.join(comp, "xdeps", "refs" + _ext_suffix())
                refs_py = os.path.join(comp, "xdeps", "refs.py")
                err = self._get_ext(refs_py, so)
                if err is None:
                    self.compiled = comp
                else:
                    self.compile_error = err
        except Exception:
            self.cleanup()
            raise

    def _get_ext(self, refs_py, so):
        key = _cache_key(refs_py)
        cached = os.path.join(CACHE, key + ".so")
        use_cache = os.environ.get("VERIF_NO_CACHE") != "1"
        if use_cache:
            try:
                os.makedirs(CACHE, exist_ok=True)
            except OSError:
                use_cache = False
        if use_cache:
            lockf = open(os.path.join(CACHE, key + ".lock"), "w")
            try:
                fcntl.flock(lockf, fcntl.LOCK_EX)
                if os.path.exists(cached):
                    shutil.copy2(cached, so)
                    os.utime(cached)
                    return None
                work = os.path.join(self.root, "build")
                os.makedirs(work, exist_ok=True)
                err = _build_ext(refs_py, so, work)
                shutil.rmtree(work, ignore_errors=True)
                if err is None:
                    tmp = cached + ".tmp%d" % os.getpid()
                    shutil.copy2(so, tmp)
                    os.replace(tmp, cached)
                    _prune_cache()
                return err
            finally:
                fcntl.flock(lockf, fcntl.LOCK_UN)
                lockf.close()
        work = os.path.join(self.root, "build")
        os.makedirs(work, exist_ok=True)
        err = _build_ext(refs_py, so, work)
        shutil.rmtree(work, ignore_errors=True)
        return err

    def path(self, mode):
        return {"pure": self.pure, "compiled": self.compiled}[mode]

    def cleanup(self):
        shutil.rmtree(self.root, ignore_errors=True)

    def __enter__(self):
        return self

    def __exit__(self, *a):
        self.cleanup()
