"""Hypothesis strategy for optimizer problems (C09 C10 C15): a JSON-able spec understood by vlib.optfam.build."""
import numpy as np
from hypothesis import strategies as st

from . import optfam as OF


@st.composite
def problems(draw, limits="mixed", max_step="none", weights="mixed", faults=False, target_modes=None,
             families=("lin", "quad", "trig"), shapes=("full", "full", "full", "dup-rows", "dep-cols")):
    n = draw(st.integers(1, 4))
    m = draw(st.integers(1, 5))
    spec = {"family": draw(st.sampled_from(list(families))), "shape": draw(st.sampled_from(list(shapes))),
            "n": n, "m": m, "coef_seed": draw(st.integers(0, 2 ** 30))}
    # ---- limits and start point
    have_limits = {"always": True, "never": False}.get(limits, None)
    if have_limits is None:
        have_limits = draw(st.integers(0, 3)) > 0
    lims = []
    for _ in range(n):
        lo = draw(st.sampled_from([-1.0, -2.0, -0.5, -0.25, 0.0]))
        hi = draw(st.sampled_from([1.0, 2.0, 0.5, 3.0, 0.25]))
        lims.append([lo, hi])
    spec["limits"] = lims if have_limits else None
    box = np.array(lims, dtype=float)
    frac0 = np.array([draw(st.sampled_from([0.5, 0.5, 0.25, 0.75, 0.1, 0.9, 0.0, 1.0])) for _ in range(n)])
    x0 = box[:, 0] + frac0 * (box[:, 1] - box[:, 0])
    spec["x0"] = [float(v) for v in x0]
    # ---- weights, steps, max_step
    if weights == "unit":
        spec["vweights"] = [1.0] * n
    else:
        spec["vweights"] = [draw(st.sampled_from([1.0, 1.0, 1.0, 0.5, 2.0, 3.0, 10.0, 0.1])) for _ in range(n)]
    spec["tweights"] = [draw(st.sampled_from([1.0, 1.0, 1.0, 2.0, 0.1, 10.0])) for _ in range(m)]
    spec["steps"] = [draw(st.sampled_from([1e-5, 1e-6, 1e-7])) for _ in range(n)]
    if max_step == "none":
        spec["max_step"] = None
    else:
        spec["max_step"] = [draw(st.sampled_from([None, 1.0, 0.5, 0.1, 0.05, 0.3, 5.0] if max_step == "mixed"
                                                 else [1.0, 0.5, 0.1, 0.05, 0.3])) for _ in range(n)]
        if all(v is None for v in spec["max_step"]):
            spec["max_step"][0] = 0.1
    # ---- targets
    modes = target_modes or ["reachable", "reachable", "outside", "far", "arbitrary", "on-limit", "near-tolerance"]
    mode = draw(st.sampled_from(modes))
    if mode == "near-tolerance":
        # the start point misses ONE tolerance by 0.5..30 % while the other targets are met exactly and are steep bowls
        # centred at the start: every substep of the line search raises the penalty although the later (smaller)
        # trial points are within every tolerance
        spec["shape"] = "full"
        spec["family"] = "bowl"
        if m < 2:
            m = spec["m"] = 2
            spec["tweights"] = spec["tweights"] + [1.0]
        spec["tweights"] = [1.0] * m
        spec["vweights"] = [1.0] * n
        spec["centre"] = list(spec["x0"])
        spec["steepness"] = [draw(st.sampled_from([1000.0, 1250.0, 1600.0, 2200.0])) for _ in range(m - 1)]
    spec["target_mode"] = mode
    f, _ = OF.make_function(spec)
    width = box[:, 1] - box[:, 0]
    if mode == "reachable":
        fr = np.array([draw(st.floats(0.1, 0.9)) for _ in range(n)])
        xs = box[:, 0] + fr * width
    elif mode == "on-limit":
        fr = np.array([draw(st.sampled_from([0.0, 1.0, 0.5])) for _ in range(n)])
        xs = box[:, 0] + fr * width
    elif mode == "outside":
        sg = np.array([draw(st.sampled_from([-1.0, 1.0])) for _ in range(n)])
        xs = np.where(sg > 0, box[:, 1] + draw(st.floats(0.2, 2.0)) * width, box[:, 0] - draw(st.floats(0.2, 2.0)) * width)
    elif mode == "far":
        sg = np.array([draw(st.sampled_from([-1.0, 1.0])) for _ in range(n)])
        far = draw(st.sampled_from([10.0, 30.0, 100.0]))
        xs = sg * (10.0 if spec["family"] == "exp" else far) * np.maximum(width, 1.0)   # exp(...) must stay finite
    else:
        xs = None
    if mode == "near-tolerance":
        f, _ = OF.make_function(spec)
        t0 = [float(v) for v in f(x0)]
        tol0 = 0.1
        t0[0] -= draw(st.sampled_from([-1.0, 1.0])) * tol0 * draw(st.sampled_from([1.005, 1.01, 1.05, 1.3]))
        spec["targets"] = t0
        spec["near_tol"] = tol0
    elif xs is None:
        spec["targets"] = [draw(st.floats(-3, 3)) for _ in range(m)]
        if spec["family"] == "exp":
            spec["targets"] = [abs(v) + 0.05 for v in spec["targets"]]
    else:
        spec["targets"] = [float(v) for v in f(xs)]
    spec["xstar"] = None if xs is None else [float(v) for v in xs]
    if spec["family"] == "exp":
        spec["log_targets"] = sorted(set(draw(st.lists(st.integers(0, m - 1), max_size=m))))
    spec["tols"] = [draw(st.sampled_from([1e-9, 1e-8, 1e-6, 1e-4, 1e-2, 0.1, 0.3])) for _ in range(m)]
    if mode == "near-tolerance":
        spec["tols"] = [0.1] * m
        spec["limits"] = None
    spec["n_steps_max"] = draw(st.sampled_from([1, 2, 3, 5, 8, 8]))
    spec["broyden"] = draw(st.sampled_from([False, False, True, 2, 3]))
    # ---- disabled subsets (indices); never all knobs / all targets
    spec["disabled_vary"] = sorted(set(draw(st.lists(st.integers(0, n - 1), max_size=n - 1)))) if n > 1 else []
    if len(spec["disabled_vary"]) >= n:
        spec["disabled_vary"] = spec["disabled_vary"][:n - 1]
    spec["disabled_targets"] = sorted(set(draw(st.lists(st.integers(0, m - 1), max_size=m - 1)))) if m > 1 else []
    if len(spec["disabled_targets"]) >= m:
        spec["disabled_targets"] = spec["disabled_targets"][:m - 1]
    if draw(st.integers(0, 2)) == 0:
        spec["disabled_vary"] = []
    if draw(st.integers(0, 2)) == 0:
        spec["disabled_targets"] = []
    spec["restore_if_fail"] = draw(st.sampled_from([True, True, True, False]))
    # arguments of the least-squares solve and the limit-checking mode (the properties hold for all of them)
    spec["rcond"] = draw(st.sampled_from([None, None, None, 1e-10, 1e-3]))
    spec["sing_val_cutoff"] = draw(st.sampled_from([None, None, None, 1, 2]))
    spec["check_limits"] = draw(st.sampled_from([True, True, True, False]))
    if faults and draw(st.integers(0, 3)) == 0:
        spec["fault_at"] = draw(st.integers(3, 30))
        spec["fault_len"] = draw(st.sampled_from([1, 1, 1, 3]))
    else:
        spec["fault_at"] = None
    return spec


def render(spec):
    keys = ("family", "shape", "n", "m", "x0", "limits", "vweights", "tweights", "max_step", "target_mode", "targets", "tols",
            "n_steps_max", "broyden", "disabled_vary", "disabled_targets", "restore_if_fail", "fault_at", "rcond",
            "sing_val_cutoff", "check_limits", "log_targets")
    return {k: spec.get(k) for k in keys}


def apply_disabled(b, how="after"):
    """disable the knobs / targets listed in the spec through the public API"""
    spec = b.spec
    if spec.get("disabled_vary"):
        b.opt.disable(vary=list(spec["disabled_vary"]))
    if spec.get("disabled_targets"):
        b.opt.disable(target=list(spec["disabled_targets"]))
