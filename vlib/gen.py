"""Hypothesis strategies for expression terms (shared by several checks)."""
from hypothesis import strategies as st

from . import expr as E

ARITH = ["+", "-", "*", "/"]
DIVS = ["//", "%"]
BITS = ["&", "|", "^"]
CMPS = ["<", "<=", ">", ">="]
SHIFTS = ["<<", ">>"]

small_ints = st.integers(-3, 6)
py_ints = st.one_of(st.integers(-20, 20), st.integers(-10 ** 9, 10 ** 9),
                    st.sampled_from([0, 1, -1, 2, 2 ** 40]))
py_floats = st.one_of(
    st.floats(-100, 100, allow_nan=False).map(lambda x: round(x, 3)),
    st.floats(allow_nan=False, allow_infinity=False, width=64, min_value=-1e12, max_value=1e12),
    st.sampled_from([0.0, -0.0, 0.5, 1.5, -2.25, 1e-9, 1e10]))
weird_floats = st.sampled_from([float("inf"), float("-inf"), float("nan")])
py_bools = st.booleans()
py_complex = st.sampled_from([1 + 2j, 0j, -1.5j, 2 + 0j])


def numbers(ints=True, floats=True, bools=False, weird=False, cplx=False):
    parts = []
    if ints:
        parts.append(py_ints)
    if floats:
        parts.append(py_floats)
    if bools:
        parts.append(py_bools)
    if weird:
        parts.append(weird_floats)
    if cplx:
        parts.append(py_complex)
    return st.one_of(*parts)


class TermGen:
    """Grammar-directed term generator.

    num_locs   : location ASTs holding numbers (general operands)
    small_locs : location ASTs holding small ints (safe as exponent / shift / ndigits)
    fn_locs    : {fname: loc AST} of callable entries
    comp       : list of (container loc AST, key loc AST) pairs for computed keys
    """

    def __init__(self, num_locs, small_locs=(), fn_locs=None, comp=(), lits=None,
                 ops=None, builtins=("abs", "round", "floor", "ceil", "trunc"),
                 unary=("-", "+"), allow_eq=False, allow_divmod=False, p_lit=0.3, comp_one_in=6, cont_locs=(), proj=False, divmod_item=False):
        self.num_locs = list(num_locs)
        self.small_locs = list(small_locs)
        self.fn_locs = dict(fn_locs or {})
        self.comp = list(comp)
        self.lits = lits if lits is not None else numbers()
        self.ops = list(ops) if ops is not None else ARITH + DIVS + ["**"]
        self.builtins = list(builtins)
        self.unary = list(unary)
        self.allow_eq = allow_eq
        self.allow_divmod = allow_divmod
        self.divmod_item = divmod_item      # divmod(t, u)[i] only (a number; a bare divmod yields a tuple)
        self.p_lit = p_lit
        self.cont_locs = list(cont_locs)    # containers a term may read AS A WHOLE through F['tot'](container)
        self.proj = proj                    # projections of a COMPUTED value: (term).real / .imag, divmod(t, u)[i]
        self.comp_one_in = comp_one_in      # a ref leaf is a computed-key access once in this many draws

    # -- leaves
    def leaf_ref(self, draw):
        choices = list(self.num_locs)
        if self.comp and draw(st.integers(0, self.comp_one_in - 1)) == 0:
            c, k = draw(st.sampled_from(self.comp))
            return ["item", c, k]
        return draw(st.sampled_from(choices))

    def small_leaf(self, draw):
        if self.small_locs and draw(st.booleans()):
            return draw(st.sampled_from(self.small_locs))
        return E.lit(draw(small_ints))

    def lit(self, draw):
        return E.lit(draw(self.lits))

    # -- terms that contain at least one ref
    def term(self, draw, depth):
        if depth <= 0 or draw(st.integers(0, 9)) < 2:
            return self.leaf_ref(draw)
        kinds = ["bin"] * 6 + ["un"] * (1 if self.unary else 0) + \
                ["bi"] * (1 if self.builtins else 0) + ["call"] * (2 if self.fn_locs else 0)
        if self.allow_eq:
            kinds.append("eq")
        if self.proj:
            kinds.append("proj")
        kind = draw(st.sampled_from(kinds))
        if kind == "proj":
            # an item / attribute taken from a computed value: its owner is an expression node, not a reference
            if (self.allow_divmod or self.divmod_item) and draw(st.booleans()):
                b = self.term(draw, depth - 1) if draw(st.booleans()) else self.lit(draw)
                return ["item", ["bi", "divmod", self.term(draw, depth - 1), [b]], E.lit(draw(st.sampled_from([0, 1])))]
            inner = self.term(draw, depth - 1)
            if inner[0] in ("loc", "item"):
                inner = ["bin", draw(st.sampled_from(["*", "+", "-"])), inner, self.lit(draw) if draw(st.booleans()) else self.term(draw, depth - 1)]
            return ["cattr", inner, E.lit(draw(st.sampled_from(["real", "imag", "real"])))]
        if kind == "bin":
            op = draw(st.sampled_from(self.ops))
            if op in ("**", "<<", ">>"):
                # bounded exponents / shift counts: right operand is a small leaf
                return ["bin", op, self.term(draw, depth - 1), self.small_leaf(draw)]
            shape = draw(st.integers(0, 9))
            if shape < 5:
                return ["bin", op, self.term(draw, depth - 1), self.term(draw, depth - 1)]
            if shape < 8:
                return ["bin", op, self.term(draw, depth - 1), self.lit(draw)]
            return ["bin", op, self.lit(draw), self.term(draw, depth - 1)]
        if kind == "un":
            return ["un", draw(st.sampled_from(self.unary)), self.term(draw, depth - 1)]
        if kind == "bi":
            names = list(self.builtins) + (["divmod"] if self.allow_divmod else [])
            name = draw(st.sampled_from(names))
            a = self.term(draw, depth - 1)
            if name == "round":
                if draw(st.booleans()):
                    return ["bi", "round", a, [self.small_leaf(draw)]]
                return ["bi", "round", a, []]
            if name == "divmod":
                b = self.term(draw, depth - 1) if draw(st.booleans()) else self.lit(draw)
                return ["bi", "divmod", a, [b]]
            return ["bi", name, a, []]
        if kind == "call":
            fname = draw(st.sampled_from(sorted(self.fn_locs)))
            if fname == "tot":
                if self.cont_locs:
                    return ["call", self.fn_locs["tot"], [draw(st.sampled_from(self.cont_locs))], []]
                fname = "sq" if "sq" in self.fn_locs else sorted(set(self.fn_locs) - {"tot"})[0]
            f = self.fn_locs[fname]

            def arg():
                if draw(st.integers(0, 3)) == 0:
                    return self.lit(draw)
                return self.term(draw, depth - 1)
            if fname == "kwsum":
                names = list(draw(st.permutations(["z", "b", "a", "m"])))[:draw(st.integers(2, 3))]
                return ["call", f, [], [[nm, arg()] for nm in names]]
            if fname == "sel":
                mode = E.lit(draw(st.sampled_from(["neg", "dbl", "pos", "abs"])))
                if draw(st.booleans()):
                    return ["call", f, [self.term(draw, depth - 1), mode], []]
                return ["call", f, [self.term(draw, depth - 1)], [["mode", mode]]]
            if fname == "add2":
                form = draw(st.integers(0, 2))
                if form == 0:
                    return ["call", f, [arg()], []]
                if form == 1:
                    return ["call", f, [arg(), arg()], []]
                return ["call", f, [arg()], [["y", arg()]]]
            if fname == "scale":
                form = draw(st.integers(0, 2))
                if form == 0:
                    return ["call", f, [self.term(draw, depth - 1)], []]
                if form == 1:
                    return ["call", f, [self.term(draw, depth - 1)], [["k", arg()]]]
                return ["call", f, [], [["x", self.term(draw, depth - 1)], ["k", arg()]]]
            if fname == "hyp":
                return ["call", f, [arg(), self.term(draw, depth - 1)], []]
            return ["call", f, [self.term(draw, depth - 1)], []]
        if kind == "eq":
            which = draw(st.sampled_from(["eq", "neq"]))
            rhs = self.term(draw, depth - 1) if draw(st.booleans()) else self.lit(draw)
            return [which, self.term(draw, depth - 1), rhs]
        raise AssertionError(kind)

    def strategy(self, max_depth=4):
        @st.composite
        def s(draw):
            d = draw(st.integers(1, max_depth))
            return self.term(draw, d)
        return s()
