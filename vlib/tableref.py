"""Reference semantics for xdeps.Table row addressing and row selection (linear scans).

Nothing here imports xdeps.  A table model is {"index": col, "cols": {col: [values]}, "order": [col, ...]}.

row spec   [name, count|None, offset]           (count-th occurrence, negative from the end, + offset)
selector   ["int", i] ["ints", [i..]] ["mask", [bool..]] ["names", [rowspec-string..]] ["mixed", [int|str..]]
           ["regex", pattern, count|None, offset] ["span", a|None, b|None, None|index col]  (a, b row specs)
           ["colspan", va|None, vb|None, other string column]
           ["range", lo|None, hi|None, col] ["none"] ["slice", start, stop, step] ["empty"]
"""
import re


class Outside(Exception):
    """the case leaves the domain the property quantifies over (e.g. an offset landing outside the table)"""


def nrows(tm):
    return len(tm["cols"][tm["order"][0]])


def names_of(tm):
    return list(tm["cols"][tm["index"]])


def ref_row(names, spec):
    """position of row `spec` by a linear scan; KeyError when there is no such occurrence"""
    name, count, offset = spec
    pos = [i for i, n in enumerate(names) if n == name]
    c = 0 if count is None else count
    if c < 0:
        c += len(pos)
    if not 0 <= c < len(pos):
        raise KeyError(name)
    idx = pos[c] + offset
    if not 0 <= idx < len(names):
        raise Outside("offset lands outside the table")
    return idx


def spec_str(spec, sep_count="::", sep_prev="<<", sep_next=">>"):
    name, count, offset = spec
    s = name
    if count is not None:
        s += f"{sep_count}{count}"
    if offset < 0:
        s += f"{sep_prev}{-offset}"
    elif offset > 0:
        s += f"{sep_next}{offset}"
    return s


def spec_tuple(spec):
    name, count, offset = spec
    c = 0 if count is None else count
    return (name, c, offset) if offset != 0 else (name, c)


def unique_labels(names, sep_count="::"):
    """labels reported for the rows: plain name if it occurs once, else name::k"""
    total = {}
    for n in names:
        total[n] = total.get(n, 0) + 1
    seen = {}
    out = []
    for n in names:
        k = seen.get(n, 0)
        seen[n] = k + 1
        out.append(n if total[n] == 1 else f"{n}{sep_count}{k}")
    return out


def ref_select(tm, sel):
    """-> list of row positions denoted by `sel`, in result order.  Raises KeyError / IndexError / Outside."""
    n = nrows(tm)
    kind = sel[0]
    if kind == "int":
        i = sel[1]
        if not -n <= i < n:
            raise IndexError(i)
        return [i % n]
    if kind == "ints":
        out = []
        for i in sel[1]:
            if not -n <= i < n:
                raise IndexError(i)
            out.append(i % n)
        return out
    if kind == "mask":
        if len(sel[1]) != n:
            raise IndexError("mask length")
        return [i for i, b in enumerate(sel[1]) if b]
    if kind == "empty":
        return []
    if kind == "none":
        return list(range(n))
    if kind == "slice":
        return list(range(n))[slice(sel[1], sel[2], sel[3])]
    names = names_of(tm) if tm["index"] is not None else None
    if kind == "names":
        return [ref_row(names, s) for s in sel[1]]
    if kind == "mixed":
        out = []
        for x in sel[1]:
            if isinstance(x, int):
                if not -n <= x < n:
                    raise IndexError(x)
                out.append(x % n)
            else:
                out.append(ref_row(names, x))
        return out
    if kind == "regex":
        _, pattern, count, offset = sel
        rx = re.compile(pattern, re.IGNORECASE)
        if count is None:
            rows = [i for i, nm in enumerate(names) if rx.fullmatch(nm)]
        else:
            rows = []
            for nm in sorted(set(names)):
                if not rx.fullmatch(nm):
                    continue
                pos = [i for i, x in enumerate(names) if x == nm]
                c = count + len(pos) if count < 0 else count
                if 0 <= c < len(pos):
                    rows.append(pos[c])
            rows.sort()
        rows = [i + offset for i in rows]
        if any(not 0 <= i < n for i in rows):
            raise Outside("shift leaves the table")
        return rows
    if kind == "span":            # a:b[:index column] - inclusive span between two addressed rows
        _, a, b, col = sel
        ia = None if a is None else ref_row(names, a)
        ib = None if b is None else ref_row(names, b) + 1
        return list(range(n))[slice(ia, ib)]
    if kind == "colspan":         # va:vb:'othercol' - first rows where that (string) column equals va / vb
        _, va, vb, col = sel
        cv = list(tm["cols"][col])
        ia = None if va is None else _first(cv, va)
        ib = None if vb is None else _first(cv, vb) + 1
        return list(range(n))[slice(ia, ib)]
    if kind == "range":
        _, lo, hi, col = sel
        cv = tm["cols"][col]
        return [i for i, v in enumerate(cv) if (lo is None or lo <= v) and (hi is None or v <= hi)]
    raise ValueError(sel)


def _first(values, v):
    for i, x in enumerate(values):
        if x == v:
            return i
    raise IndexError(v)


def to_python(sel, sep=("::", "<<", ">>")):
    """selector AST -> the Python object passed to table.rows[...]"""
    import numpy as np
    kind = sel[0]
    if kind == "int":
        return sel[1]
    if kind == "ints":
        return list(sel[1])
    if kind == "mask":
        return np.array(sel[1], dtype=bool)
    if kind == "empty":
        return []
    if kind == "none":
        return None
    if kind == "slice":
        return slice(sel[1], sel[2], sel[3])
    if kind == "names":
        return [spec_str(s, *sep) for s in sel[1]]
    if kind == "mixed":
        return [x if isinstance(x, int) else spec_str(x, *sep) for x in sel[1]]
    if kind == "regex":
        return spec_str([sel[1], sel[2], sel[3]], *sep)
    if kind == "span":
        _, a, b, col = sel
        sa = None if a is None else spec_str(a, *sep)
        sb = None if b is None else spec_str(b, *sep)
        return slice(sa, sb, col)
    if kind == "colspan":
        return slice(sel[1], sel[2], sel[3])
    if kind == "range":
        return slice(sel[1], sel[2], sel[3])
    raise ValueError(sel)


def render(sel):
    kind = sel[0]
    if kind in ("int", "ints", "mask"):
        return f"rows[{sel[1]!r}]"
    if kind == "empty":
        return "rows[[]]"
    if kind == "none":
        return "rows[None]"
    if kind == "slice":
        return f"rows[{sel[1]}:{sel[2]}:{sel[3]}]"
    if kind == "names":
        return f"rows[{[spec_str(s) for s in sel[1]]!r}]"
    if kind == "mixed":
        return f"rows[{[x if isinstance(x, int) else spec_str(x) for x in sel[1]]!r}]"
    if kind == "regex":
        return f"rows[{spec_str([sel[1], sel[2], sel[3]])!r}]"
    if kind == "span":
        a = None if sel[1] is None else spec_str(sel[1])
        b = None if sel[2] is None else spec_str(sel[2])
        return f"rows[{a!r}:{b!r}" + (f":{sel[3]!r}]" if sel[3] is not None else "]")
    if kind in ("range", "colspan"):
        return f"rows[{sel[1]!r}:{sel[2]!r}:{sel[3]!r}]"
    return repr(sel)
