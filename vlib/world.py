"""World, history model (pull-model oracle) and real executor for manager histories.

The world is tree shaped user data (no aliasing):
  d   dict root (m.ref):  flat leaves, nested dicts n0, n1 (n1.m depth 3), list l, object o
  e   attribute-object root (m.ref)
  g   dict behind m.refattr (attribute syntax -> item access)
  F   dict of module-level pure functions (CallRef targets)
A *location* is (label, ((kind, key), ...)).

Model = definitions (loc -> AST), function tasks, linear knobs and plain data.
After every operation it recomputes every task in a topological order of the TRUE
data-flow graph (reads/writes related by path prefix): the pull-model oracle.
It also knows the manager's DOCUMENTED ordering relation (owner-chain closures)
to decide the known-finding predicate K1 and the trigger bounds L / U of C02.
"""
import copy
import math

from . import expr as E

TRACE = None        # list collecting ("w", loc_str, value) / ("call", name) events, or None
FAULT = None        # callable(event_tuple) that may raise, or None


def _event(ev):
    if TRACE is not None:
        TRACE.append(ev)
    if FAULT is not None:
        FAULT(ev)


class LDict(dict):
    """dict that reports its writes (path kept in an instance attribute)"""
    _vpath = "?"

    def __setitem__(self, k, v):
        _event(("w", f"{self._vpath}[{k!r}]", v))
        dict.__setitem__(self, k, v)

    def __reduce__(self):
        return (_mk_ldict, (dict(self), self._vpath))


def _mk_ldict(d, path):
    x = LDict(d)
    x._vpath = path
    return x


class LList(list):
    _vpath = "?"

    def __setitem__(self, k, v):
        _event(("w", f"{self._vpath}[{k!r}]", v))
        list.__setitem__(self, k, v)

    def __reduce__(self):
        return (_mk_llist, (list(self), self._vpath))


def _mk_llist(d, path):
    x = LList(d)
    x._vpath = path
    return x


class LObj:
    def __init__(self, path="?", **kw):
        object.__setattr__(self, "_vpath", path)
        for k, v in kw.items():
            object.__setattr__(self, k, v)

    def __setattr__(self, k, v):
        _event(("w", f"{self._vpath}.{k}", v))
        object.__setattr__(self, k, v)

    def fields(self):
        return {k: v for k, v in vars(self).items() if k != "_vpath"}


# ----------------------------------------------------------------- skeleton
def L(label, *steps):
    return (label, tuple(steps))


I = lambda k: ("i", k)
A = lambda k: ("a", k)

NUM_LEAVES = [
    L("d", I("a")), L("d", I("b")), L("d", I("c")), L("d", I("x")), L("d", I("y")),
    L("d", I("n0"), I("p")), L("d", I("n0"), I("q")), L("d", I("n0"), I("r")),
    L("d", I("n1"), I("p")), L("d", I("n1"), I("q")),
    L("d", I("n1"), I("m"), I("u")), L("d", I("n1"), I("m"), I("v")),
    L("d", I("l"), I(0)), L("d", I("l"), I(1)), L("d", I("l"), I(2)),
    L("d", I("o"), A("s")), L("d", I("o"), A("t")),
    L("e", A("x")), L("e", A("y")), L("e", A("sub"), A("p")), L("e", A("sub"), A("q")),
    L("g", I("k1")), L("g", I("k2")),
]
# locations that do NOT exist at the start: assignment targets only (never read by a generated term); an assignment
# through the manager creates them - or does not, when the very first write fails
FRESH_LEAVES = [L("d", I("new")), L("d", I("n0"), I("new")), L("d", I("o"), A("new")), L("e", A("new"))]
FLAT_LEAVES = [k for k in NUM_LEAVES if len(k[1]) == 1]
NESTED_LEAVES = [k for k in NUM_LEAVES if len(k[1]) > 1]
IDX_LEAF = L("d", I("i0"))
KEY_LEAF = L("d", I("k0"))
CONTAINERS = [L("d", I("n0")), L("d", I("n1")), L("d", I("n1"), I("m")), L("d", I("l")),
              L("d", I("o")), L("e", A("sub"))]
COMP = [(L("d", I("l")), IDX_LEAF), (L("d", I("n0")), KEY_LEAF)]
FN_NAMES = ["add2", "scale", "sq", "hyp", "tot", "kwsum", "sel"]
ATTR_ITEM_LABELS = ("g",)


def is_prefix(a, b):
    """location a is b or an ancestor of b"""
    return a[0] == b[0] and len(a[1]) <= len(b[1]) and b[1][:len(a[1])] == a[1]


def related(a, b):
    return is_prefix(a, b) or is_prefix(b, a)


def build_roots(init):
    """init: {loc_str: value} for all leaves -> fresh containers"""
    g = lambda k: init[E.loc_str(k)]
    d = LDict()
    d._vpath = "d"
    for k in ("a", "b", "c", "x", "y"):
        dict.__setitem__(d, k, g(L("d", I(k))))
    dict.__setitem__(d, "i0", g(IDX_LEAF))
    dict.__setitem__(d, "k0", g(KEY_LEAF))
    dict.__setitem__(d, "n0", make_container(L("d", I("n0")), {k: g(L("d", I("n0"), I(k))) for k in "pqr"}))
    n1 = make_container(L("d", I("n1")), {"p": g(L("d", I("n1"), I("p"))), "q": g(L("d", I("n1"), I("q")))})
    dict.__setitem__(n1, "m", make_container(L("d", I("n1"), I("m")),
                                             {k: g(L("d", I("n1"), I("m"), I(k))) for k in "uv"}))
    dict.__setitem__(d, "n1", n1)
    dict.__setitem__(d, "l", make_container(L("d", I("l")), [g(L("d", I("l"), I(i))) for i in range(3)]))
    dict.__setitem__(d, "o", make_container(L("d", I("o")), {k: g(L("d", I("o"), A(k))) for k in "st"}, obj=True))
    e = LObj("e", x=g(L("e", A("x"))), y=g(L("e", A("y"))))
    object.__setattr__(e, "sub", make_container(L("e", A("sub")),
                                                {k: g(L("e", A("sub"), A(k))) for k in "pq"}, obj=True))
    gg = LDict({"k1": g(L("g", I("k1"))), "k2": g(L("g", I("k2")))})
    gg._vpath = "g"
    F = LDict({k: E.FUNCS[k] for k in FN_NAMES})
    F._vpath = "F"
    roots = {"d": d, "e": e, "g": gg, "F": F}
    for k in FRESH_LEAVES:      # only when a state in which they already exist is rebuilt
        if E.loc_str(k) in init:
            c = roots[k[0]]
            for kind, kk in k[1][:-1]:
                c = c[kk] if kind == "i" else getattr(c, kk)
            kind, kk = k[1][-1]
            if kind == "a":
                object.__setattr__(c, kk, init[E.loc_str(k)])
            else:
                dict.__setitem__(c, kk, init[E.loc_str(k)])
    return roots


def make_container(lockey, content, obj=False):
    path = E.loc_str(lockey)
    if obj:
        return LObj(path, **content)
    if isinstance(content, list):
        x = LList(content)
    else:
        x = LDict(content)
    x._vpath = path
    return x


def container_shape(lockey):
    """keys of a replaceable container and whether it is an object / list"""
    s = E.loc_str(lockey)
    return {"d['n0']": ("dict", ["p", "q", "r"]), "d['n1']['m']": ("dict", ["u", "v"]),
            "d['l']": ("list", [0, 1, 2]), "d['o']": ("obj", ["s", "t"]),
            "e.sub": ("obj", ["p", "q"]), "d['n1']": ("dict1", ["p", "q"])}[s]


def canon(v):
    """order-insensitive, type-tagged, NaN-safe canonical form of container contents"""
    if isinstance(v, dict):
        return ("dict", tuple(sorted((repr(k), canon(x)) for k, x in v.items())))
    if isinstance(v, list):
        return ("list", tuple(canon(x) for x in v))
    if isinstance(v, LObj):
        return ("obj", tuple(sorted((k, canon(x)) for k, x in v.fields().items())))
    if isinstance(v, tuple):
        return ("tuple", tuple(canon(x) for x in v))
    if callable(v):
        return ("fn", getattr(v, "__name__", "?"))
    if isinstance(v, bool):
        return ("bool", v)
    if isinstance(v, float):
        if v != v:
            return ("float", "nan")
        if v == 0:
            return ("float", "0")      # zeros of either sign are equal values (see expr.same)
        return ("float", v.hex())
    if isinstance(v, complex):
        return ("complex", canon(v.real), canon(v.imag))
    return (type(v).__name__, repr(v))


def canon_roots(roots):
    return {k: canon(roots[k]) for k in ("d", "e", "g", "F")}


def diff_roots(real, model, path=""):
    """first differing location between two container trees -> (path, real, model) or None"""
    for lab in ("d", "e", "g", "F"):
        r = _diff(real[lab], model[lab], lab)
        if r:
            return r
    return None


def _diff(a, b, path):
    if isinstance(a, dict) and isinstance(b, dict):
        if set(a) != set(b):
            return (path, f"keys {sorted(map(repr, a))}", f"keys {sorted(map(repr, b))}")
        for k in a:
            r = _diff(a[k], b[k], f"{path}[{k!r}]")
            if r:
                return r
        return None
    if isinstance(a, list) and isinstance(b, list):
        if len(a) != len(b):
            return (path, f"len {len(a)}", f"len {len(b)}")
        for i, (x, y) in enumerate(zip(a, b)):
            r = _diff(x, y, f"{path}[{i}]")
            if r:
                return r
        return None
    if isinstance(a, LObj) and isinstance(b, LObj):
        fa, fb = a.fields(), b.fields()
        if set(fa) != set(fb):
            return (path, f"attrs {sorted(fa)}", f"attrs {sorted(fb)}")
        for k in fa:
            r = _diff(fa[k], fb[k], f"{path}.{k}")
            if r:
                return r
        return None
    if canon(a) != canon(b):
        return (path, E.show(a) if not isinstance(a, (dict, list, LObj)) else type(a).__name__,
                E.show(b) if not isinstance(b, (dict, list, LObj)) else type(b).__name__)
    return None


# ----------------------------------------------------------------- function tasks
def ft_sum(vals):
    return sum(vals) * 2 + 1


def ft_max(vals):
    return max(vals)


def ft_first_sq(vals):
    return vals[0] * vals[0] - (vals[1] if len(vals) > 1 else 0)


FT_FUNCS = {"sum": ft_sum, "max": ft_max, "fsq": ft_first_sq}


# ----------------------------------------------------------------- the model
class Task:
    __slots__ = ("tid", "kind", "reads", "writes", "dclosure", "tchain", "info")

    def __init__(self, tid, kind, reads, writes, dclosure, tchain, info=None):
        self.tid, self.kind, self.reads, self.writes = tid, kind, reads, writes
        self.dclosure, self.tchain, self.info = dclosure, tchain, info


def loc_dep(key):
    return ("loc",) + key


class Model:
    def __init__(self, init):
        self.init = dict(init)
        self.roots = build_roots(init)
        self.defs = {}      # loc -> ast
        self.ftasks = {}    # name -> dict(deps, targets, fn)
        self.knobs = {}     # name -> dict(source, weights, targets, prev)
        self.k1 = False
        self.frozen = False
        self.limit = None   # int magnitude bound used while *generating* (E.TooBig)

    # ---- data
    def get(self, key):
        return E.get_loc(key, self.roots)

    def put(self, key, v):
        # raw write (no events wanted from the model side)
        c = self.roots[key[0]]
        for kind, k in key[1][:-1]:
            c = c[k] if kind == "i" else getattr(c, k)
        kind, k = key[1][-1]
        if kind == "a":
            object.__setattr__(c, k, v)
        elif isinstance(c, list):
            list.__setitem__(c, k, v)
        else:
            dict.__setitem__(c, k, v)

    # ---- tasks
    def tasks(self):
        out = []
        for t, ast in self.defs.items():
            out.append(Task(("def", t), "expr", E.reads(ast), [t], E.deps(ast),
                            {loc_dep(p) for p in E.prefixes(t)}, ast))
        for name, ft in self.ftasks.items():
            dcl = set()
            for dk in ft["deps"]:
                dcl.update(loc_dep(p) for p in E.prefixes(dk))
            out.append(Task(("ft", name), "ft", set(ft["deps"]), list(ft["targets"]), dcl,
                            {loc_dep(t) for t in ft["targets"]}, ft))
        for name, kb in self.knobs.items():
            out.append(Task(("knob", name), "knob", {kb["source"]}, list(kb["targets"]),
                            {loc_dep(kb["source"])}, {loc_dep(t) for t in kb["targets"]}, kb))
        return out

    def written_by_task(self):
        w = {}
        for t in self.tasks():
            for x in t.writes:
                w[x] = t.tid
        return w

    @staticmethod
    def true_edge(a, b):
        return any(related(w, r) for w in a.writes for r in b.reads)

    @staticmethod
    def doc_edge(a, b):
        return bool(a.tchain & b.dclosure)

    def graphs(self, tasks=None):
        tasks = self.tasks() if tasks is None else tasks
        true_g = {t.tid: set() for t in tasks}
        doc_g = {t.tid: set() for t in tasks}
        for a in tasks:
            for b in tasks:
                if a.tid == b.tid:
                    if self.doc_edge(a, b):
                        doc_g[a.tid].add(b.tid)
                    continue
                if self.true_edge(a, b):
                    true_g[a.tid].add(b.tid)
                if self.doc_edge(a, b):
                    doc_g[a.tid].add(b.tid)
        return tasks, true_g, doc_g

    @staticmethod
    def reach(g, start):
        seen = set()
        todo = list(start)
        while todo:
            x = todo.pop()
            if x in seen:
                continue
            seen.add(x)
            todo.extend(g.get(x, ()))
        return seen

    def k1_now(self):
        """a true data-flow edge A->B (A != B) with A reachable from B in the documented relation"""
        tasks, true_g, doc_g = self.graphs()
        for a, succ in true_g.items():
            for b in succ:
                if a != b and a in self.reach(doc_g, [b]):
                    return (a, b)
        return None

    def downstream_locs(self, key):
        """locations written by tasks that (transitively) read `key` (true data flow)"""
        tasks, true_g, _ = self.graphs()
        start = [t.tid for t in tasks if any(related(key, r) for r in t.reads)]
        ids = self.reach(true_g, start)
        out = set()
        for t in tasks:
            if t.tid in ids:
                out.update(t.writes)
        return out

    def trigger_sets(self, key):
        """(L, U) for an assignment to `key`: true-data-flow set and documented upper bound"""
        tasks, true_g, doc_g = self.graphs()
        pre = {loc_dep(p) for p in E.prefixes(key)}
        startL = [t.tid for t in tasks if any(related(key, r) for r in t.reads)]
        startU = [t.tid for t in tasks if t.dclosure & pre]
        return self.reach(true_g, startL), self.reach(doc_g, startU), tasks, true_g, doc_g

    def topo(self):
        tasks, true_g, _ = self.graphs()
        indeg = {t.tid: 0 for t in tasks}
        for a, succ in true_g.items():
            for b in succ:
                indeg[b] += 1
        order = []
        ready = [t.tid for t in tasks if indeg[t.tid] == 0]
        byid = {t.tid: t for t in tasks}
        while ready:
            x = ready.pop(0)
            order.append(byid[x])
            for b in sorted(true_g[x], key=repr):
                indeg[b] -= 1
                if indeg[b] == 0:
                    ready.append(b)
        if len(order) != len(tasks):
            raise AssertionError("true data-flow graph is cyclic (generator bug)")
        return order

    # ---- recompute (pull model)
    def recompute(self, knob_ran=()):
        """Re-evaluate every task in true data-flow order.  Raises what Python raises."""
        for t in self.topo():
            if t.kind == "expr":
                self.put(t.writes[0], E.mirror(t.info, self.roots, self.limit))
            elif t.kind == "ft":
                vals = [self.get(k) for k in t.info["deps"]]
                outv = E._chk(FT_FUNCS[t.info["fn"]](vals), self.limit)
                for i, tk in enumerate(t.info["targets"]):
                    self.put(tk, outv + i)
            elif t.kind == "knob":
                if t.tid[1] in knob_ran:
                    kb = t.info
                    value = self.get(kb["source"])
                    delta = value - kb["prev"]
                    for w, tk in zip(kb["weights"], kb["targets"]):
                        self.put(tk, E._chk(self.get(tk) + w * delta, self.limit))
                    kb["prev"] = value

    def update_k1(self):
        if not self.k1 and self.k1_now() is not None:
            self.k1 = True

    # ---- operations (mirror what the real side does); return None or raise
    def apply(self, op):
        k = op["op"]
        if k == "setv":
            key = tuple_loc(op["loc"])
            self.defs.pop(key, None)
            self.put(key, E.dec(op["v"]))
            knobs = [n for n, kb in self.knobs.items() if kb["source"] == key]
            self.recompute(knob_ran=knobs)
        elif k == "sete":
            key = tuple_loc(op["loc"])
            self.defs.pop(key, None)
            self.defs[key] = op["ast"]
            self.update_k1()
            self.recompute()
        elif k == "inplace":
            key = tuple_loc(op["loc"])
            operand_ast = op["operand"]
            is_num = operand_ast[0] == "lit"
            if key in self.defs:
                new = ["bin", op["iop"], self.defs[key], operand_ast]
                self.defs.pop(key)
                self.defs[key] = new
                self.update_k1()
                self.recompute()
            elif is_num:
                v = E._chk(E.BINOPS[op["iop"]](self.get(key), E.dec(operand_ast[1])), self.limit)
                self.put(key, v)
                knobs = [n for n, kb in self.knobs.items() if kb["source"] == key]
                self.recompute(knob_ran=knobs)
            else:
                new = ["bin", op["iop"], E.lit(self.get(key)), operand_ast]
                self.defs[key] = new
                self.update_k1()
                self.recompute()
        elif k == "unreg":
            self.defs.pop(tuple_loc(op["loc"]))
        elif k == "setc":
            key = tuple_loc(op["loc"])
            kind, keys = container_shape(key)
            vals = [E.dec(v) for v in op["values"]]
            if kind == "list":
                newc = make_container(key, list(vals))
            elif kind == "obj":
                newc = make_container(key, dict(zip(keys, vals)), obj=True)
            elif kind == "dict1":
                newc = make_container(key, dict(zip(keys, vals[:2])))
                dict.__setitem__(newc, "m", make_container(L("d", I("n1"), I("m")),
                                                           dict(zip(["u", "v"], vals[2:4]))))
            else:
                newc = make_container(key, dict(zip(keys, vals)))
            self.put(key, newc)
            self.recompute()
        elif k == "regft":
            self.ftasks[op["name"]] = {"deps": [tuple_loc(x) for x in op["deps"]],
                                       "targets": [tuple_loc(x) for x in op["targets"]],
                                       "fn": op["fn"]}
            self.update_k1()
            self.recompute()
        elif k == "regknob":
            src = tuple_loc(op["source"])
            self.knobs[op["name"]] = {"source": src, "weights": list(op["weights"]),
                                      "targets": [tuple_loc(x) for x in op["targets"]],
                                      "prev": self.get(src)}
        elif k == "unregtask":
            if op["name"] in self.ftasks:
                del self.ftasks[op["name"]]
            else:
                del self.knobs[op["name"]]
        elif k in ("verify", "cleanup", "refresh", "clone", "noop", "loadself"):
            pass
        elif k == "load":
            # Manager.load: the entries are installed one after the other; an entry whose target is already defined
            # replaces that definition (overwrite=True) or is skipped (overwrite=False) - also when the earlier
            # definition comes from the same dump
            for loc, ast in op["entries"]:
                key = tuple_loc(loc)
                if key in self.defs:
                    if not op["overwrite"]:
                        continue
                    self.defs.pop(key)
                self.defs[key] = ast
            self.update_k1()
            self.recompute()
        else:
            raise ValueError(op)


def tuple_loc(x):
    """JSON location [label, [[kind, key], ...]] -> hashable key"""
    if isinstance(x, tuple) and len(x) == 2 and isinstance(x[1], tuple):
        return x
    return (x[0], tuple((a, b) for a, b in x[1]))


def json_loc(key):
    return [key[0], [list(s) for s in key[1]]]


def ast_loc(key):
    return ["loc", key[0], [list(s) for s in key[1]]]


# ----------------------------------------------------------------- the real side
class Real:
    """Real manager over fresh containers; applies the same operations through the API."""

    def __init__(self, init, manager=None):
        import xdeps
        self.xd = xdeps
        self.roots = build_roots(init)
        self.m = manager if manager is not None else xdeps.Manager()
        self.refs = {
            "d": self.m.ref(self.roots["d"], "d"),
            "e": self.m.ref(self.roots["e"], "e"),
            "g": self.m.refattr(self.roots["g"], "g"),
            "F": self.m.ref(self.roots["F"], "F"),
        }
        self.named = {}      # task name -> task object

    @classmethod
    def from_manager(cls, mgr):
        """wrap an existing manager (e.g. an unpickled copy): containers and refs are the manager's own"""
        import xdeps
        self = cls.__new__(cls)
        self.xd = xdeps
        self.m = mgr
        self.refs = dict(mgr.containers)
        self.roots = {k: r._owner for k, r in mgr.containers.items()}
        self.named = {}
        return self

    def ref(self, key):
        return E.build_loc(ast_loc(key), self.refs, ATTR_ITEM_LABELS)

    def build(self, ast):
        return E.build(ast, self.refs, ATTR_ITEM_LABELS)

    def assign(self, key, value):
        """`owner[key] = value` / `owner.attr = value` through the parent ref"""
        label, steps = key
        parent = E.build_loc(["loc", label, [list(s) for s in steps[:-1]]], self.refs, ATTR_ITEM_LABELS)
        kind, k = steps[-1]
        if kind == "i":
            if len(steps) == 1 and label in ATTR_ITEM_LABELS and isinstance(k, str):
                setattr(parent, k, value)
            else:
                parent[k] = value
        else:
            setattr(parent, k, value)

    def apply(self, op):
        from xdeps.tasks import FunctionTask, LinearKnob
        k = op["op"]
        if k == "setv":
            self.assign(tuple_loc(op["loc"]), E.dec(op["v"]))
        elif k == "sete":
            self.assign(tuple_loc(op["loc"]), self.build(op["ast"]))
        elif k == "inplace":
            key = tuple_loc(op["loc"])
            tmp = self.ref(key)
            tmp = E.IOPS[op["iop"]](tmp, self.build(op["operand"]))
            self.assign(key, tmp)
        elif k == "unreg":
            self.m.unregister(self.ref(tuple_loc(op["loc"])))
        elif k == "setc":
            key = tuple_loc(op["loc"])
            kind, keys = container_shape(key)
            vals = [E.dec(v) for v in op["values"]]
            if kind == "list":
                newc = make_container(key, list(vals))
            elif kind == "obj":
                newc = make_container(key, dict(zip(keys, vals)), obj=True)
            elif kind == "dict1":
                newc = make_container(key, dict(zip(keys, vals[:2])))
                dict.__setitem__(newc, "m", make_container(L("d", I("n1"), I("m")),
                                                           dict(zip(["u", "v"], vals[2:4]))))
            else:
                newc = make_container(key, dict(zip(keys, vals)))
            self.assign(key, newc)
        elif k == "regft":
            deps = [tuple_loc(x) for x in op["deps"]]
            targets = [tuple_loc(x) for x in op["targets"]]
            roots = self.roots
            fn = FT_FUNCS[op["fn"]]
            name = op["name"]

            def action(deps=deps, targets=targets, fn=fn, roots=roots, name=name):
                _event(("call", name))
                vals = [E.get_loc(dk, roots) for dk in deps]
                outv = fn(vals)
                for i, tk in enumerate(targets):
                    E.set_loc(tk, roots, outv + i)
            depset = set()
            for dk in deps:
                for p in E.prefixes(dk):
                    depset.add(self.ref(p))
            task = FunctionTask(name, action, {self.ref(t) for t in targets}, depset)
            self.m.register(task)
            self.named[name] = task
            if not op.get("norun"):
                # bring the new task up to date through the API (registration does not run it)
                d0 = deps[0]
                self.assign(d0, E.get_loc(d0, self.roots))
        elif k == "regknob":
            task = LinearKnob(op["name"], self.ref(tuple_loc(op["source"])), list(op["weights"]),
                              [self.ref(tuple_loc(t)) for t in op["targets"]])
            self.m.register(task)
            self.named[op["name"]] = task
        elif k == "unregtask":
            self.m.unregister(op["name"])
            self.named.pop(op["name"], None)
        elif k == "verify":
            self.m.verify()
        elif k == "cleanup":
            self.m.cleanup()
        elif k == "refresh":
            self.m.refresh()
        elif k == "clone":
            self.m.clone()
        elif k == "loadself":
            self.m.load(self.m.dump())
        elif k == "load":
            dump = [(str(self.ref(tuple_loc(loc))), str(self.build(ast))) for loc, ast in op["entries"]]
            self.m.load(dump, overwrite=op["overwrite"])
            # load() installs definitions without evaluating them: bring the data up to date the way a user does - all
            # expression and function tasks in dependency order (a LinearKnob applies an increment, it is not a definition:
            # re-running it with a zero increment would only turn an int target into a float)
            self.m.run_tasks([t for t in self.m.find_tasks() if not isinstance(t, LinearKnob)])
        elif k == "noop":
            pass
        else:
            raise ValueError(op)


def render_op(op):
    k = op["op"]
    ls = lambda x: E.loc_str(tuple_loc(x))
    if k == "setv":
        return f"{ls(op['loc'])} = {E.show(E.dec(op['v']))}"
    if k == "sete":
        return f"{ls(op['loc'])} = {E.render(op['ast'])}"
    if k == "inplace":
        return f"{ls(op['loc'])} {op['iop']}= {E.render(op['operand'])}"
    if k == "unreg":
        return f"unregister({ls(op['loc'])})"
    if k == "setc":
        return f"{ls(op['loc'])} = <new container {[E.show(E.dec(v)) for v in op['values']]}>"
    if k == "regft":
        return (f"register FunctionTask {op['name']}: {[ls(t) for t in op['targets']]} = "
                f"{op['fn']}({[ls(d) for d in op['deps']]})")
    if k == "regknob":
        return (f"register LinearKnob {op['name']}: {ls(op['source'])} -> "
                f"{[(w, ls(t)) for w, t in zip(op['weights'], op['targets'])]}")
    if k == "unregtask":
        return f"unregister({op['name']!r})"
    if k == "load":
        body = "; ".join(f"{ls(loc)} = {E.render(ast)}" for loc, ast in op["entries"])
        return f"load([{body}], overwrite={op['overwrite']}) + run all tasks"
    return k


def render_case(case):
    return [render_op(o) for o in case["ops"]]
