"""Worker process: runs one shard of one check against the staged xdeps."""
import importlib
import json
import os
import sys
import time
import warnings


def main():
    args = json.load(open(sys.argv[1]))
    out_path = args["out"]
    res = {"ok": False}
    try:
        warnings.simplefilter("ignore")
        mode = args["mode"]
        stage = args["stage_paths"][mode]
        # the staged package must be the one imported
        import xdeps
        here = os.path.realpath(os.path.dirname(xdeps.__file__))
        want = os.path.realpath(os.path.join(stage, "xdeps"))
        if here != want:
            raise RuntimeError(f"xdeps imported from {here}, expected {want}")
        import xdeps.refs as refs
        if refs.is_cythonized() != (mode == "compiled"):
            raise RuntimeError(f"build mode mismatch: want {mode}, "
                               f"is_cythonized={refs.is_cythonized()}")
        from vlib.common import Ctx
        mod = importlib.import_module("checks." + args["prop"].lower())
        ctx = Ctx(args["prop"], args["tier"], args["seed"], args["shard"],
                  args["nshards"], args["known_sigs"], mode, args["stage_paths"])
        if args["what"] == "run":
            mod.run(ctx)
            res["stats"] = ctx.stats.to_dict()
        elif args["what"] == "interpret":
            cases = json.load(open(args["cases_file"]))
            outs = []
            for case in cases:
                try:
                    outs.append(mod.interpret(case))
                except BaseException as e:
                    if isinstance(e, (KeyboardInterrupt, SystemExit)):
                        raise
                    outs.append([["interpret-raises", type(e).__name__, repr(e)[:200]]])
            # round trip through JSON so that both sides compare the same representation
            with open(args["transcripts_file"], "w") as fh:
                json.dump(outs, fh, default=repr)
            res["stats"] = ctx.stats.to_dict()
        elif args["what"] == "replay":
            outs = []
            for item in args["cases"]:
                t0 = time.time()
                f = mod.replay(ctx, item["case"])
                outs.append({"name": item.get("name"),
                             "failure": None if f is None else f.as_dict(),
                             "wall": time.time() - t0})
            res["replays"] = outs
            res["stats"] = ctx.stats.to_dict()
        res["ok"] = True
    except BaseException as e:  # harness error: reported as exit 2 by the parent
        import traceback
        res["error"] = "".join(traceback.format_exception(type(e), e, e.__traceback__))[-6000:]
    with open(out_path, "w") as fh:
        json.dump(res, fh)


if __name__ == "__main__":
    main()
