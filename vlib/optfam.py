"""Deterministic merit-function families and problem builder for the optimizer properties (C09 C10 C15 C16).

A problem is a JSON-able dict; all coefficients derive from a drawn integer seed, so a case replays exactly.
  family   'lin'  f = A x + c            'quad'  f = A x + B (x*x) + c        'trig'  f = sin(A x) + c
           'exp'  f = exp(A x / 4 + c / 2)  (positive; targets listed in spec['log_targets'] are optimize_log targets)
  shape    'full' | 'dup-rows' (inconsistent unless targets agree) | 'dep-cols' (rank deficient)
The user function is evaluated here with numpy, independently of xdeps; each family knows its Jacobian.
"""
import numpy as np


class KnobDict(dict):
    """dict of knobs that logs every write (name, value)"""

    def __init__(self, *a, **k):
        super().__init__(*a, **k)
        self.writes = []

    def __setitem__(self, k, v):
        self.writes.append((k, float(v)))
        dict.__setitem__(self, k, v)


class ActionFault(Exception):
    pass


def coefficients(spec):
    rs = np.random.RandomState(spec["coef_seed"] % (2 ** 31))
    n, m = spec["n"], spec["m"]
    A = rs.uniform(-2, 2, size=(m, n))
    # keep the leading square block reasonably conditioned
    k = min(m, n)
    U, s, Vt = np.linalg.svd(A[:k, :k])
    s = np.clip(s, 0.5, 3.0)
    A[:k, :k] = U @ np.diag(s) @ Vt
    shape = spec.get("shape", "full")
    if shape == "dup-rows" and m >= 2:
        A[m - 1, :] = A[0, :]
    if shape == "dep-cols" and n >= 2:
        A[:, n - 1] = 2.0 * A[:, 0]
    B = rs.uniform(-0.5, 0.5, size=(m, n))
    c = rs.uniform(-1, 1, size=m)
    return A, B, c


def make_function(spec):
    """-> (f, jac): numpy callables R^n -> R^m and R^n -> R^(m x n)"""
    A, B, c = coefficients(spec)
    fam = spec["family"]
    if fam == "lin":
        return (lambda x: A @ np.asarray(x, float) + c), (lambda x: A.copy())
    if fam == "quad":
        return (lambda x: A @ np.asarray(x, float) + B @ (np.asarray(x, float) ** 2) + c), \
               (lambda x: A + 2 * B * np.asarray(x, float)[None, :])
    if fam == "trig":
        return (lambda x: np.sin(A @ np.asarray(x, float)) + c), \
               (lambda x: np.cos(A @ np.asarray(x, float))[:, None] * A)
    if fam == "exp":
        # strictly positive: the only family on which Target(optimize_log=True) is defined
        return (lambda x: np.exp(0.25 * (A @ np.asarray(x, float)) + 0.5 * c)), \
               (lambda x: np.exp(0.25 * (A @ np.asarray(x, float)) + 0.5 * c)[:, None] * 0.25 * A)
    if fam == "bowl":
        # target 0 is linear with a unit gradient; the others are steep bowls centred at spec["centre"]:
        # f_i = s_i * |x - centre|^2.  At the centre their Jacobian rows vanish, so a Newton step driven by target 0
        # alone walks up the bowls (used for "no substep lowers the penalty although trial points are within tolerance")
        n, m = spec["n"], spec["m"]
        a = A[0] / np.linalg.norm(A[0])
        centre = np.array(spec["centre"], dtype=float)
        sv = np.array(spec["steepness"], dtype=float)

        def f(x):
            x = np.asarray(x, float)
            out = np.empty(m)
            out[0] = a @ x + c[0]
            out[1:] = sv[:m - 1] * np.sum((x - centre) ** 2)
            return out

        def jac(x):
            x = np.asarray(x, float)
            J = np.empty((m, n))
            J[0] = a
            J[1:] = 2.0 * sv[:m - 1, None] * (x - centre)[None, :]
            return J
        return f, jac
    raise ValueError(fam)


def knob_names(n):
    return [f"k{i}" for i in range(n)]


class Built:
    pass


def build(spec, replace_disabled_target=None):
    """Construct the Optimize object for `spec` exactly as Optimize.from_callable does (Vary / Target / an
    Action that calls the user function), with knobs in a logging container.

    replace_disabled_target: optional {index: (scale, shift, value)} - metamorphic variants of targets
    """
    import xdeps as xd
    from xdeps.optimize.optimize import Action, Vary, Optimize
    f, jac = make_function(spec)
    n, m = spec["n"], spec["m"]
    names = knob_names(n)
    kd = KnobDict()
    for nm, v in zip(names, spec["x0"]):
        dict.__setitem__(kd, nm, float(v))
    repl = dict(replace_disabled_target or {})
    logt = set(spec.get("log_targets") or ())
    for i in list(repl):
        if i in logt:
            # an optimize_log target and its value must stay positive
            sc, sh, val = repl[i]
            repl[i] = (abs(sc) if sc else 1.0, abs(sh), abs(val) + 0.1)

    class UserAction(Action):
        def __init__(self):
            self.calls = 0
            self.fault_at = spec.get("fault_at")
            self.fault_len = spec.get("fault_len", 1)

        def run(self):
            self.calls += 1
            if self.fault_at is not None and self.fault_at <= self.calls < self.fault_at + self.fault_len:
                raise ActionFault(f"injected fault at call {self.calls}")
            x = np.array([kd[nm] for nm in names], dtype=float)
            y = f(x)
            out = {}
            for i in range(m):
                if i in repl:
                    sc, sh, _ = repl[i]
                    out[i] = float(y[i]) * sc + sh
                else:
                    out[i] = float(y[i])
            return out

    act = UserAction()
    vary = []
    for i, nm in enumerate(names):
        lim = spec["limits"][i] if spec.get("limits") else None
        vary.append(Vary(nm, kd, limits=lim, step=spec["steps"][i], weight=spec["vweights"][i],
                         max_step=spec["max_step"][i] if spec.get("max_step") else None, tag=f"v{i}",
                         active=i not in spec.get("inactive_at_construction_vary", ())))
    targets = []
    for i in range(m):
        val = spec["targets"][i]
        if i in repl:
            val = repl[i][2]
        targets.append(act.target(i, val, tol=spec["tols"][i], weight=spec["tweights"][i], tag=f"t{i}",
                                  **({"optimize_log": True} if i in logt else {})))
        if i in spec.get("inactive_at_construction_targets", ()):
            targets[-1].active = False
    opt = Optimize(vary=vary, targets=targets, n_steps_max=spec.get("n_steps_max", 20),
                   restore_if_fail=spec.get("restore_if_fail", True), show_call_counter=False, verbose=0,
                   check_limits=spec.get("check_limits", True))
    b = Built()
    b.opt, b.kd, b.act, b.f, b.jac, b.names = opt, kd, act, f, jac, names
    b.spec = spec
    return b


def knob_vector(b):
    return np.array([b.kd[nm] for nm in b.names], dtype=float)


def residuals(b, x=None, targets=None):
    """independent evaluation of (f - target) at the knob values left in the container"""
    x = knob_vector(b) if x is None else x
    t = np.array(b.spec["targets"] if targets is None else targets, dtype=float)
    return b.f(x) - t


def ulp_tol(values, weights, k=4):
    """|error| allowed for knob values that went through  (v / w) * w"""
    v = np.abs(np.asarray(values, float))
    w = np.asarray(weights, float)
    return np.where(w == 1.0, 0.0, k * np.spacing(np.maximum(v, 1e-300)))
