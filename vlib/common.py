"""Shared pieces of the checks: statistics, failures, the Hypothesis driver."""
import hashlib
import json
import math
import os
import signal
import sys
import time
import traceback
from collections import Counter


def jsonable(x, depth=0):
    """Turn any case/detail into strict JSON (non-finite floats -> strings)."""
    if depth > 40:
        return "<deep>"
    if x is None or isinstance(x, (bool, str)):
        return x
    if isinstance(x, int):
        return x if abs(x) < 2 ** 62 else str(x)
    if isinstance(x, float):
        return x if math.isfinite(x) else repr(x)
    if isinstance(x, complex):
        return repr(x)
    if isinstance(x, dict):
        return {str(k): jsonable(v, depth + 1) for k, v in x.items()}
    if isinstance(x, (list, tuple, set, frozenset)):
        return [jsonable(v, depth + 1) for v in x]
    try:
        import numpy as np
        if isinstance(x, np.ndarray):
            return {"ndarray": jsonable(x.tolist(), depth + 1), "dtype": str(x.dtype)}
        if isinstance(x, np.generic):
            return {"np": type(x).__name__, "v": jsonable(x.item(), depth + 1)}
    except Exception:
        pass
    return repr(x)


def digest(x):
    return hashlib.sha1(
        json.dumps(jsonable(x), sort_keys=True, default=repr).encode()).hexdigest()[:16]


class Failure:
    """A property violation found on one case."""

    def __init__(self, sig, detail, case=None):
        self.sig = sig          # root-cause signature (string)
        self.detail = detail    # human readable: observed vs expected
        self.case = case        # serialisable case (set by the driver if None)

    def as_dict(self):
        return {"sig": self.sig, "detail": jsonable(self.detail), "case": self.case}


class Stats:
    def __init__(self):
        self.evaluations = 0
        self.nontrivial = set()
        self.classes = Counter()
        self.excluded = Counter()
        self.known_hits = Counter()
        self.samples = []
        self.failures = []      # list of dict (sig, detail, case)
        self.notes = []
        self.exhaustive = {}
        self.extra = {}
        self._sample_every = 1
        self._seen_for_sample = 0
        self._dom_seen = {}

    def case(self, case_repr, nontrivial, classes=()):
        """Register one evaluated case."""
        self.evaluations += 1
        for c in classes:
            self.classes[c] += 1
        if nontrivial:
            self.nontrivial.add(digest(case_repr))
            # thin deterministic sample per domain (first class prefix): 1st, 4th, 16th ...
            dom = classes[0].split(":")[0] if classes else ""
            n = self._dom_seen.get(dom, 0) + 1
            self._dom_seen[dom] = n
            if n in (1, 4, 16, 64, 256, 1024) and len(self.samples) < 24:
                self.samples.append(jsonable(case_repr))

    def to_dict(self):
        return {
            "evaluations": self.evaluations,
            "nontrivial": sorted(self.nontrivial),
            "classes": dict(self.classes),
            "excluded": dict(self.excluded),
            "known_hits": dict(self.known_hits),
            "samples": self.samples,
            "failures": self.failures,
            "notes": self.notes,
            "exhaustive": self.exhaustive,
            "extra": jsonable(self.extra),
        }


class Ctx:
    """What a check module gets."""

    def __init__(self, prop, tier, seed, shard, nshards, known_sigs, mode, stage_paths):
        self.prop = prop
        self.tier = tier
        self.seed = seed
        self.shard = shard
        self.nshards = nshards
        self.known_sigs = set(known_sigs)
        self.mode = mode                  # 'compiled' | 'pure'
        self.stage_paths = stage_paths    # {'compiled': path|None, 'pure': path|None}
        self.stats = Stats()
        self.t0 = time.time()

    @property
    def quick(self):
        return self.tier == "quick"

    def derived_seed(self, salt=0):
        return (self.seed * 1000003 + self.shard * 7919 + salt) % (2 ** 31 - 1)

    def n(self, quick, thorough):
        """Per-shard case budget."""
        return quick if self.quick else thorough

    def fail(self, failure, case):
        """Record a failure (returns True if it is an unlisted one)."""
        if failure.case is None:
            failure.case = jsonable(case)
        if failure.sig in self.known_sigs:
            self.stats.known_hits[failure.sig] += 1
            return False
        self.stats.failures.append(failure.as_dict())
        return True


class _Found(Exception):
    pass


class CaseTimeout(KeyboardInterrupt):
    """one case ran longer than the per-case limit: the case is inconclusive (never a violation); derived from
    KeyboardInterrupt so that no 'except Exception' / re-raising 'except BaseException' of a check swallows it"""


def _alarm(signum, frame):
    raise CaseTimeout()


def case_limit(ctx):
    return int(os.environ.get("VERIF_CASE_TIMEOUT", 120 if ctx.quick else 600))


def drive(ctx, strategy, body, max_examples, salt=0, max_rounds=4, label=""):
    """Run `body(case) -> Failure|None` over `strategy` under Hypothesis.

    Unlisted failures are shrunk by Hypothesis; the minimal failing case is
    recorded; the search is then repeated (with that signature muted) so that a
    shallow defect does not hide others (collect-then-shrink, <= max_rounds).
    Known-finding signatures are counted, never raised.
    """
    import hypothesis
    from hypothesis import given, settings, HealthCheck, Phase

    muted = set()
    phases = [Phase.generate, Phase.shrink]
    for rnd in range(max_rounds):
        holder = {}

        budget = float(os.environ.get("VERIF_SHRINK_S", 20 if ctx.quick else 90))

        def test(case):
            if "t_fail" in holder and time.time() - holder["t_fail"] > budget:
                # shrink budget used up: only cases already seen failing still execute (they
                # must keep failing for Hypothesis' final replay); the rest is skipped
                if digest(case) not in holder["failing"]:
                    return
            if holder.get("timeouts", 0) >= 3:
                return      # this search is inconclusive already (counted); do not burn the watchdog on it
            signal.signal(signal.SIGALRM, _alarm)
            signal.alarm(case_limit(ctx))
            try:
                f = body(case)
            except hypothesis.errors.HypothesisException:
                raise
            except CaseTimeout:
                holder["timeouts"] = holder.get("timeouts", 0) + 1
                ctx.stats.extra["cases_timed_out"] = ctx.stats.extra.get("cases_timed_out", 0) + 1
                ctx.stats.notes.append(f"a case of '{label}' exceeded the per-case limit of {case_limit(ctx)} s (inconclusive)")
                return
            except (KeyboardInterrupt, SystemExit, MemoryError):
                raise
            finally:
                signal.alarm(0)
            if f is None:
                return
            if f.sig in ctx.known_sigs:
                ctx.stats.known_hits[f.sig] += 1
                return
            if f.sig in muted:
                return
            holder["last"] = (f, case)
            holder.setdefault("t_fail", time.time())
            holder.setdefault("failing", set()).add(digest(case))
            raise _Found(f.sig)

        st = settings(
            max_examples=max_examples,
            database=None,
            deadline=None,
            derandomize=False,
            report_multiple_bugs=False,
            phases=phases,
            suppress_health_check=list(HealthCheck),
            print_blob=False,
        )
        wrapped = hypothesis.seed(ctx.derived_seed(salt + 101 * rnd))(
            st(given(strategy)(test)))
        try:
            wrapped()
            return
        except _Found:
            f, case = holder["last"]
            f.case = jsonable(case) if f.case is None else f.case
            ctx.stats.failures.append(f.as_dict())
            muted.add(f.sig)
        except hypothesis.errors.Flaky as e:
            # a flaky oracle must never be reported as a violation: harness error
            raise RuntimeError(f"flaky test body in {label}: {e}")
        # continue searching behind the muted signature with fewer examples
        max_examples = max(50, max_examples // 2)


def guarded(ctx, fn, *args, label="case"):
    """run fn(*args) under the per-case limit (for loops that do not go through drive());
    -> (result, timed_out).  A case over the limit is counted and makes a quiet run inconclusive, never a violation."""
    signal.signal(signal.SIGALRM, _alarm)
    signal.alarm(case_limit(ctx))
    try:
        return fn(*args), False
    except CaseTimeout:
        ctx.stats.extra["cases_timed_out"] = ctx.stats.extra.get("cases_timed_out", 0) + 1
        ctx.stats.notes.append(f"a {label} exceeded the per-case limit of {case_limit(ctx)} s (inconclusive)")
        return None, True
    finally:
        signal.alarm(0)


def exc_name(e):
    return type(e).__name__


def short_tb():
    return traceback.format_exc(limit=6)
