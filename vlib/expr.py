"""Harness-side expression terms: one AST, four readings.

build(ast, refs)      the xdeps expression, by applying the real Python operators
mirror(ast, roots)    direct Python evaluation on the containers' current values
                      (documented deviation only: / // % by zero -> NaN at that node)
unbuild(ref)          structural read-back of an xdeps expression into this AST
deps(ast)/reads(ast)  expected dependency set / locations read

AST (JSON lists):
  ["loc", label, [[kind, key], ...]]     kind 'i' item, 'a' attribute
  ["lit", encoded value]
  ["bin", op, l, r]   ["un", op, a]   ["bi", name, a, [param...]]
  ["call", func_ast, [arg...], [[kw, arg]...]]
  ["item", owner_ast, key_ast]           computed key
  ["eq", l, r] ["neq", l, r]
"""
import builtins
import math
import operator

import numpy as np

BINOPS = {
    "+": operator.add, "-": operator.sub, "*": operator.mul, "@": operator.matmul,
    "/": operator.truediv, "//": operator.floordiv, "%": operator.mod,
    "**": operator.pow, "&": operator.and_, "|": operator.or_, "^": operator.xor,
    "<": operator.lt, "<=": operator.le, ">": operator.gt, ">=": operator.ge,
    ">>": operator.rshift, "<<": operator.lshift,
}
NAN_GUARD = ("/", "//", "%")
UNOPS = {"-": operator.neg, "+": operator.pos, "~": operator.invert}
BUILTINS = {
    "abs": builtins.abs, "round": builtins.round, "divmod": builtins.divmod,
    "floor": math.floor, "ceil": math.ceil, "trunc": math.trunc,
}
IOPS = {
    "+": operator.iadd, "-": operator.isub, "*": operator.imul, "@": operator.imatmul,
    "/": operator.itruediv, "//": operator.ifloordiv, "%": operator.imod,
    "**": operator.ipow, "&": operator.iand, "|": operator.ior, "^": operator.ixor,
    ">>": operator.irshift, "<<": operator.ilshift,
}
CLASS_TO_BIN = {
    "AddExpr": "+", "SubExpr": "-", "MulExpr": "*", "MatmulExpr": "@",
    "TruedivExpr": "/", "FloordivExpr": "//", "ModExpr": "%", "PowExpr": "**",
    "BitwiseAndExpr": "&", "BitwiseOrExpr": "|", "XorExpr": "^",
    "LtExpr": "<", "LeExpr": "<=", "GtExpr": ">", "GeExpr": ">=",
    "RshiftExpr": ">>", "LshiftExpr": "<<",
}
CLASS_TO_UN = {"NegExpr": "-", "PosExpr": "+", "InvertExpr": "~"}


# ----------------------------------------------------------------- functions
def add2(x, y=0):
    return x + y


def scale(x, k=2):
    return x * k


def hyp(x, y):
    return math.hypot(x, y)


def sq(x):
    return x * x


def tot(c):
    """total of every number held (at any depth) by a container: a function of the container AS A WHOLE"""
    if isinstance(c, dict):
        vals = [c[k] for k in sorted(c, key=repr)]
    elif isinstance(c, (list, tuple)):
        vals = list(c)
    elif hasattr(c, "fields"):
        f = c.fields()
        vals = [f[k] for k in sorted(f)]
    else:
        raise TypeError(f"tot() of {type(c).__name__}")
    s = 0
    for v in vals:
        if isinstance(v, (dict, list, tuple)) or hasattr(v, "fields"):
            s = s + tot(v)
        elif isinstance(v, (int, float, complex)) or hasattr(v, "dtype"):
            s = s + v
    return s


def kwsum(**kw):
    """order-sensitive in its keyword arguments (Python passes them in the order of the call)"""
    return sum((i + 1) * v for i, v in enumerate(kw.values()))


def sel(x, mode="pos"):
    """takes a STRING constant, positionally or by keyword"""
    if mode == "neg":
        return -x
    if mode == "dbl":
        return x * 2
    return x


FUNCS = {"add2": add2, "scale": scale, "hyp": hyp, "sq": sq, "tot": tot, "kwsum": kwsum, "sel": sel,
         "sin": math.sin, "cos": math.cos, "atan": math.atan}


# ----------------------------------------------------------------- values
def enc(v):
    if isinstance(v, bool):
        return ["bool", v]
    if isinstance(v, int):
        return ["int", str(v)]
    if isinstance(v, float):
        return ["float", v.hex()]
    if isinstance(v, complex):
        return ["complex", v.real.hex(), v.imag.hex()]
    if isinstance(v, str):
        return ["str", v]
    if isinstance(v, np.ndarray):
        return ["arr", str(v.dtype), [enc(x.item()) for x in v.ravel()], list(v.shape)]
    if isinstance(v, np.generic):
        return ["np", type(v).__name__, enc(v.item())]
    if isinstance(v, tuple):
        return ["tuple", [enc(x) for x in v]]
    if callable(v):
        for k, f in FUNCS.items():
            if f is v:
                return ["fn", k]
    if v is None:
        return ["none"]
    raise TypeError(f"cannot encode {v!r}")


def dec(x):
    k = x[0]
    if k == "bool":
        return bool(x[1])
    if k == "int":
        return int(x[1])
    if k == "float":
        return float.fromhex(x[1])
    if k == "complex":
        return complex(float.fromhex(x[1]), float.fromhex(x[2]))
    if k == "str":
        return x[1]
    if k == "arr":
        return np.array([dec(e) for e in x[2]], dtype=x[1]).reshape(x[3])
    if k == "np":
        return getattr(np, x[1])(dec(x[2]))
    if k == "tuple":
        return tuple(dec(e) for e in x[1])
    if k == "fn":
        return FUNCS[x[1]]
    if k == "none":
        return None
    raise TypeError(f"cannot decode {x!r}")


def show(v):
    """Readable, type-tagged, NaN-safe rendering used in evidence and details."""
    if isinstance(v, np.ndarray):
        return f"ndarray[{v.dtype}]{v.tolist()!r}"
    if isinstance(v, tuple):
        return "(" + ", ".join(show(x) for x in v) + ")"
    if callable(v):
        return "fn:" + getattr(v, "__name__", "?")
    return f"{type(v).__name__}:{v!r}"


def _feq(a, b):
    return (a != a and b != b) or a == b


def same(a, b):
    """Same value *and type*; NaN equals NaN.  Zeros of either sign are equal
    values (IEEE equality): Cython 3.3's float/int fast paths return the float
    operand itself for `x + 0` and `0.0 * n`, so the compiled build may differ from
    CPython in the sign of a zero result - a toolchain artefact, not a value."""
    if type(a) is not type(b):
        return False
    if isinstance(a, np.ndarray):
        if a.dtype != b.dtype or a.shape != b.shape:
            return False
        if a.dtype.kind in "fc":
            return bool(np.array_equal(a, b, equal_nan=True))
        if a.dtype.kind == "O":
            return all(same(x, y) for x, y in zip(a.ravel().tolist(), b.ravel().tolist()))
        return bool(np.array_equal(a, b))
    if isinstance(a, tuple):
        return len(a) == len(b) and all(same(x, y) for x, y in zip(a, b))
    if isinstance(a, (float, np.floating)):
        return bool(_feq(a, b))
    if isinstance(a, (complex, np.complexfloating)):
        return bool(_feq(a.real, b.real) and _feq(a.imag, b.imag))
    if callable(a):
        return a is b
    try:
        return bool(a == b)
    except Exception:
        return repr(a) == repr(b)


# ----------------------------------------------------------------- helpers
import re as _re
_NEG_ZERO = _re.compile(r"(?<![\w.])-0\.0(?![\d])")


def norm_zero_text(s):
    """printed expressions with a captured zero literal: '-0.0' and '0.0' are the same value (see same())"""
    return _NEG_ZERO.sub("0.0", s) if isinstance(s, str) else s


def loc(label, *steps):
    return ["loc", label, [list(s) for s in steps]]


def lit(v):
    return ["lit", enc(v)]


def loc_key(ast):
    """hashable identity of a location"""
    return (ast[1], tuple((k, kk) for k, kk in ast[2]))


def key_to_loc(key):
    return ["loc", key[0], [list(s) for s in key[1]]]


def prefixes(key):
    """owner chain of a location, top-level container excluded, itself included"""
    label, steps = key
    return [(label, steps[:i]) for i in range(1, len(steps) + 1)]


def loc_str(key):
    label, steps = key
    s = label
    for kind, k in steps:
        s += f"[{k!r}]" if kind == "i" else f".{k}"
    return s


def is_ref(x):
    from xdeps.refs import BaseRef
    return isinstance(x, BaseRef)


# ----------------------------------------------------------------- build
def build_loc(ast, refs, attr_item_labels=()):
    r = refs[ast[1]]
    first = True
    for kind, k in ast[2]:
        if kind == "i":
            if first and ast[1] in attr_item_labels and isinstance(k, str) and k.isidentifier():
                r = getattr(r, k)       # ObjectAttrRef: attribute syntax -> ItemRef
            else:
                r = r[k]
        else:
            r = getattr(r, k)
        first = False
    return r


def build(ast, refs, attr_item_labels=(), memo=None):
    """-> xdeps expression (or a plain Python value if the term has no ref).
    memo (optional dict): identical sub-terms are built once and the OBJECT is shared; afterwards it maps
    repr(sub-term) -> (sub-term, object) for every sub-term, so that callers can interrogate the very node objects."""
    if memo is not None:
        k = repr(ast)
        if k in memo:
            return memo[k][1]
        r = _build(ast, refs, attr_item_labels, memo)
        memo[k] = (ast, r)
        return r
    return _build(ast, refs, attr_item_labels, None)


def _build(ast, refs, attr_item_labels, memo):
    t = ast[0]
    if t == "loc":
        return build_loc(ast, refs, attr_item_labels)
    if t == "lit":
        return dec(ast[1])
    if t == "bin":
        return BINOPS[ast[1]](build(ast[2], refs, attr_item_labels, memo),
                              build(ast[3], refs, attr_item_labels, memo))
    if t == "un":
        return UNOPS[ast[1]](build(ast[2], refs, attr_item_labels, memo))
    if t == "bi":
        a = build(ast[2], refs, attr_item_labels, memo)
        ps = [build(p, refs, attr_item_labels, memo) for p in ast[3]]
        return BUILTINS[ast[1]](a, *ps)
    if t == "call":
        f = build(ast[1], refs, attr_item_labels, memo)
        args = [build(a, refs, attr_item_labels, memo) for a in ast[2]]
        kw = {k: build(a, refs, attr_item_labels, memo) for k, a in ast[3]}
        return f(*args, **kw)
    if t == "item":
        return build(ast[1], refs, attr_item_labels, memo)[build(ast[2], refs, attr_item_labels, memo)]
    if t == "cattr":        # attribute access below a computed item: ["cattr", owner_ast, ["lit", name]]
        return getattr(build(ast[1], refs, attr_item_labels, memo), dec(ast[2][1]))
    if t == "litexpr":
        from xdeps.refs import LiteralExpr
        return LiteralExpr(dec(ast[1][1]))
    if t == "eq":
        return build(ast[1], refs, attr_item_labels, memo)._eq(build(ast[2], refs, attr_item_labels, memo))
    if t == "neq":
        return build(ast[1], refs, attr_item_labels, memo)._neq(build(ast[2], refs, attr_item_labels, memo))
    raise ValueError(ast)


# ----------------------------------------------------------------- mirror
def get_loc(key, roots):
    v = roots[key[0]]
    for kind, k in key[1]:
        v = v[k] if kind == "i" else getattr(v, k)
    return v


def set_loc(key, roots, value):
    v = roots[key[0]]
    for kind, k in key[1][:-1]:
        v = v[k] if kind == "i" else getattr(v, k)
    kind, k = key[1][-1]
    if kind == "i":
        v[k] = value
    else:
        setattr(v, k, value)


def has_ref(ast):
    t = ast[0]
    if t in ("loc", "litexpr"):
        return True
    if t == "lit":
        return False
    if t in ("bin", "eq", "neq", "item", "cattr"):
        return has_ref(ast[-2]) or has_ref(ast[-1])
    if t == "un":
        return has_ref(ast[2])
    if t == "bi":
        return has_ref(ast[2]) or any(has_ref(p) for p in ast[3])
    if t == "call":
        return has_ref(ast[1]) or any(has_ref(a) for a in ast[2]) or any(has_ref(a) for _, a in ast[3])
    raise ValueError(ast)


class TooBig(Exception):
    """raised by mirror(limit=...) when an int result exceeds the generator's size bound"""


def mirror(ast, roots, limit=None):
    v = _mirror(ast, roots, limit)
    return v


def _chk(v, limit):
    if limit is not None and isinstance(v, int) and not isinstance(v, bool) and abs(v) > limit:
        raise TooBig()
    return v


def _mirror(ast, roots, limit):
    t = ast[0]
    if t == "loc":
        return get_loc(loc_key(ast), roots)
    if t == "lit":
        return dec(ast[1])
    if t == "litexpr":
        return dec(ast[1][1])
    if t == "bin":
        a = _mirror(ast[2], roots, limit)
        b = _mirror(ast[3], roots, limit)
        if ast[1] in NAN_GUARD and (has_ref(ast[2]) or has_ref(ast[3])):
            try:
                return _chk(BINOPS[ast[1]](a, b), limit)
            except ZeroDivisionError:
                return float("nan")
        return _chk(BINOPS[ast[1]](a, b), limit)
    if t == "un":
        return UNOPS[ast[1]](_mirror(ast[2], roots, limit))
    if t == "bi":
        return _chk(BUILTINS[ast[1]](_mirror(ast[2], roots, limit),
                                     *[_mirror(p, roots, limit) for p in ast[3]]), limit)
    if t == "call":
        f = _mirror(ast[1], roots, limit)
        return _chk(f(*[_mirror(a, roots, limit) for a in ast[2]],
                      **{k: _mirror(a, roots, limit) for k, a in ast[3]}), limit)
    if t == "item":
        return _mirror(ast[1], roots, limit)[_mirror(ast[2], roots, limit)]
    if t == "cattr":
        return getattr(_mirror(ast[1], roots, limit), dec(ast[2][1]))
    if t == "eq":
        return _mirror(ast[1], roots, limit) == _mirror(ast[2], roots, limit)
    if t == "neq":
        return _mirror(ast[1], roots, limit) != _mirror(ast[2], roots, limit)
    raise ValueError(ast)


# ----------------------------------------------------------------- structure
def subterms(ast):
    t = ast[0]
    if t in ("loc", "lit", "litexpr"):
        return []
    if t in ("bin", "eq", "neq", "item", "cattr"):
        return [ast[-2], ast[-1]]
    if t == "un":
        return [ast[2]]
    if t == "bi":
        return [ast[2]] + list(ast[3])
    if t == "call":
        return [ast[1]] + list(ast[2]) + [a for _, a in ast[3]]
    raise ValueError(ast)


_REFLECT = {"<": ">", ">": "<", "<=": ">=", ">=": "<="}


def canon_ast(ast):
    """hashable canonical form of an AST; a comparison with a literal on the left is written the way Python builds it
    (literal < ref  ->  ref.__gt__(literal)), so that a model term and a term read back from xdeps agree"""
    if isinstance(ast, list):
        if len(ast) == 4 and ast[0] == "bin" and ast[1] in _REFLECT and not has_ref(ast[2]) and has_ref(ast[3]):
            ast = ["bin", _REFLECT[ast[1]], ast[3], ast[2]]
        return tuple(canon_ast(x) for x in ast)
    return ast


def deps(ast, out=None):
    """Expected dependency set: every item/attribute location occurring anywhere
    in the term (owner chains included, top-level containers excluded); a
    computed-key access contributes itself as a term."""
    if out is None:
        out = set()
    t = ast[0]
    if t == "loc":
        for p in prefixes(loc_key(ast)):
            out.add(("loc",) + p)
    elif t in ("item", "cattr"):
        deps(ast[1], out)
        deps(ast[2], out)
        out.add(("term", canon_ast(ast)))
    else:
        for s in subterms(ast):
            deps(s, out)
    return out


def reads(ast, out=None):
    """True data-flow: locations whose value the term reads.  A computed-key
    access reads its owner container as a whole (plus the key term)."""
    if out is None:
        out = set()
    t = ast[0]
    if t == "loc":
        out.add(loc_key(ast))
    else:
        for s in subterms(ast):
            reads(s, out)
    return out


def size(ast):
    return 1 + sum(size(s) for s in subterms(ast))


def n_ops(ast):
    return (0 if ast[0] in ("loc", "lit", "litexpr") else 1) + sum(n_ops(s) for s in subterms(ast))


def depth(ast):
    ss = subterms(ast)
    return 1 + (max(depth(s) for s in ss) if ss else 0)


# ----------------------------------------------------------------- unbuild
def unbuild(x):
    """Structural read-back of an xdeps expression (no use of its printer)."""
    from xdeps import refs as R
    if not isinstance(x, R.BaseRef):
        return lit(x)
    cn = type(x).__name__
    if isinstance(x, R.Ref):            # Ref / ObjectAttrRef
        return ["loc", x._key, []]
    if isinstance(x, (R.ItemRef, R.AttrRef)):
        kind = "i" if isinstance(x, R.ItemRef) else "a"
        owner = unbuild(x._owner)
        if isinstance(x._key, R.BaseRef):
            if kind != "i":
                return ["cattr", owner, unbuild(x._key)]
            return ["item", owner, unbuild(x._key)]
        if owner[0] == "loc":
            return ["loc", owner[1], owner[2] + [[kind, x._key]]]
        return ["item" if kind == "i" else "cattr", owner, lit(x._key)]
    if cn in CLASS_TO_BIN:
        return ["bin", CLASS_TO_BIN[cn], unbuild(x._lhs), unbuild(x._rhs)]
    if cn == "EqExpr":
        return ["eq", unbuild(x._lhs), unbuild(x._rhs)]
    if cn == "NeExpr":
        return ["neq", unbuild(x._lhs), unbuild(x._rhs)]
    if cn in CLASS_TO_UN:
        return ["un", CLASS_TO_UN[cn], unbuild(x._arg)]
    if cn == "LiteralExpr":
        return ["litexpr", unbuild(x._arg)]
    if cn == "BuiltinRef":
        name = None
        for k, f in BUILTINS.items():
            if f is x._op:
                name = k
        return ["bi", name or repr(x._op), unbuild(x._arg), [unbuild(p) for p in x._params]]
    if cn == "CallRef":
        return ["call", unbuild(x._func), [unbuild(a) for a in x._args],
                [[k, unbuild(a)] for k, a in x._kwargs]]
    return ["unknown", cn]


def ast_equal(a, b):
    """structural equality of ASTs with literal values compared by value+type"""
    if a[0] != b[0]:
        return False
    if a[0] == "lit":
        return same(dec(a[1]), dec(b[1]))
    if a[0] == "loc":
        return a[1] == b[1] and len(a[2]) == len(b[2]) and all(
            x[0] == y[0] and type(x[1]) is type(y[1]) and x[1] == y[1]
            for x, y in zip(a[2], b[2]))
    if len(a) != len(b):
        return False
    for x, y in zip(a[1:], b[1:]):
        if isinstance(x, list) and x and isinstance(x[0], str) and x[0] in (
                "loc", "lit", "bin", "un", "bi", "call", "item", "eq", "neq", "cattr", "litexpr"):
            if not (isinstance(y, list) and ast_equal(x, y)):
                return False
        elif isinstance(x, list):
            if not isinstance(y, list) or len(x) != len(y):
                return False
            for p, q in zip(x, y):
                if isinstance(p, list) and p and isinstance(p[0], str) and p[0] in (
                        "loc", "lit", "bin", "un", "bi", "call", "item", "eq", "neq", "cattr", "litexpr"):
                    if not ast_equal(p, q):
                        return False
                elif isinstance(p, list):     # kwargs pair [k, ast]
                    if p[0] != q[0] or not ast_equal(p[1], q[1]):
                        return False
                elif p != q:
                    return False
        elif x != y:
            return False
    return True


def dep_of_ref(r):
    """A reported dependency (an Item/AttrRef) in the form used by deps()."""
    a = unbuild(r)
    if a[0] == "loc":
        return ("loc",) + loc_key(a)
    return ("term", canon_ast(a))


def render(ast):
    """Readable rendering for evidence samples (harness-side, not xdeps' printer)."""
    t = ast[0]
    if t == "loc":
        return loc_str(loc_key(ast))
    if t == "lit":
        return repr(dec(ast[1])) if ast[1][0] not in ("arr", "np") else show(dec(ast[1]))
    if t == "litexpr":
        return f"LiteralExpr({render(ast[1])})"
    if t == "bin":
        return f"({render(ast[2])} {ast[1]} {render(ast[3])})"
    if t == "un":
        return f"({ast[1]}{render(ast[2])})"
    if t == "bi":
        return f"{ast[1]}({', '.join(render(a) for a in [ast[2]] + list(ast[3]))})"
    if t == "call":
        args = [render(a) for a in ast[2]] + [f"{k}={render(a)}" for k, a in ast[3]]
        return f"{render(ast[1])}({', '.join(args)})"
    if t == "item":
        return f"{render(ast[1])}[{render(ast[2])}]"
    if t == "cattr":
        return f"{render(ast[1])}.{dec(ast[2][1])}"
    if t == "eq":
        return f"{render(ast[1])}._eq({render(ast[2])})"
    if t == "neq":
        return f"{render(ast[1])}._neq({render(ast[2])})"
    return repr(ast)
