"""Parent-side differential execution (C20): one corpus, many configurations, transcripts compared here."""
import json
import os
import time
from collections import Counter

from .common import digest, jsonable


def _interpret_batch(spawn, collect, stage_paths, workdir, base, cases, cfgs, tag, timeout):
    """interpret `cases` under every configuration -> {cfg_index: [transcript, ...]}"""
    cf = os.path.join(workdir, f"{tag}.cases.json")
    json.dump(cases, open(cf, "w"))
    procs = []
    for ci, (mode, hs) in enumerate(cfgs):
        out_t = os.path.join(workdir, f"{tag}.cfg{ci}.transcripts.json")
        procs.append(spawn(stage_paths, mode, dict(base, what="interpret", shard=ci, cases_file=cf, transcripts_file=out_t),
                           workdir, f"{tag}.cfg{ci}", hashseed=str(hs)))
    collect(procs, timeout)
    out = {}
    for ci in range(len(cfgs)):
        out[ci] = json.load(open(os.path.join(workdir, f"{tag}.cfg{ci}.transcripts.json")))
    return out


def run_differential(mod, prop, tier, seed, stage_paths, workdir, spawn, collect, timeout, regression=(), only_cases=None):
    """-> stats dict in the shape a worker returns (so the normal merge / evidence path applies)"""
    cfgs = mod.configs(tier)
    nparts = mod.parts(tier)
    base = {"prop": prop, "tier": tier, "seed": seed, "known_sigs": [], "nshards": len(cfgs)}
    t0 = time.time()
    if only_cases is not None:
        corpus = list(only_cases)
    else:
        corpus = mod.make_corpus(tier, seed) + [dict(c) for c in regression]
    t_gen = time.time() - t0
    stats = {"evaluations": 0, "nontrivial": set(), "classes": Counter(), "excluded": Counter(), "known_hits": Counter(),
             "samples": [], "failures": [], "notes": [], "exhaustive": {}, "extra": {}}
    for c in corpus:
        for why, n in (c.get("excluded") or {}).items():
            stats["excluded"][why] += n
    # ---- all parts x configurations in parallel
    procs = []
    part_cases = [corpus[p::nparts] for p in range(nparts)]
    files = {}
    for p in range(nparts):
        cf = os.path.join(workdir, f"part{p}.cases.json")
        json.dump(part_cases[p], open(cf, "w"))
        for ci, (mode, hs) in enumerate(cfgs):
            out_t = os.path.join(workdir, f"part{p}.cfg{ci}.transcripts.json")
            files[(p, ci)] = out_t
            procs.append(spawn(stage_paths, mode,
                               dict(base, what="interpret", shard=ci, cases_file=cf, transcripts_file=out_t),
                               workdir, f"part{p}.cfg{ci}", hashseed=str(hs)))
    collect(procs, timeout)
    mismatches = []
    for p in range(nparts):
        trs = {ci: json.load(open(files[(p, ci)])) for ci in range(len(cfgs))}
        for k, case in enumerate(part_cases[p]):
            nt, cls = mod.classify(case)
            stats["evaluations"] += len(cfgs)
            for c in cls:
                stats["classes"][c] += 1
            if nt:
                stats["nontrivial"].add(digest(case))
                if len(stats["samples"]) < 12 and (k % 7 == 0):
                    stats["samples"].append(jsonable(mod.render(case)))
            ref = trs[0][k]
            if any(len(t[k]) and t[k][-1][:1] == ["interpret-raises"] for t in trs.values()):
                stats["classes"]["interpretation-raises(harness)"] += 1
            for ci in range(1, len(cfgs)):
                if trs[ci][k] != ref:
                    fd = mod.first_difference(ref, trs[ci][k])
                    if fd is None:
                        stats["classes"]["raises-in-all-configurations(type differs, order dependent)"] += 1
                        continue
                    mismatches.append((case, 0, ci, fd))
                    break
    stats["extra"]["programs"] = len(corpus)
    stats["extra"]["configurations"] = [f"{m}/PYTHONHASHSEED={h}" for m, h in cfgs]
    stats["extra"]["disagreements_checked"] = len(corpus) * (len(cfgs) - 1)
    stats["extra"]["seconds_generating_corpus"] = round(t_gen, 1)
    # ---- minimise one exemplar per signature
    seen = set()
    for case, ca, cb, diff in mismatches:
        d = mod.describe_difference(diff)
        sig = mod.signature(case, d)
        if sig in seen:
            continue
        seen.add(sig)
        pair = [cfgs[ca], cfgs[cb]]
        cur, cur_d = case, d
        rounds = 0
        t_shrink = time.time()
        while rounds < 40 and time.time() - t_shrink < (60 if tier == "quick" else 240):
            rounds += 1
            cands = [c for c in mod.shrink_candidates(cur) if mod.valid(c)][:40]
            if not cands:
                break
            out = _interpret_batch(spawn, collect, stage_paths, workdir, base, cands, pair, f"shrink{len(seen)}_{rounds}", timeout)
            nxt = None
            for i, c in enumerate(cands):
                fd = mod.first_difference(out[0][i], out[1][i])
                if fd is not None:
                    dd = mod.describe_difference(fd)
                    if mod.signature(c, dd) == sig:
                        nxt, cur_d = c, dd
                        break
            if nxt is None:
                break
            cur = nxt
        detail = dict(cur_d, configurations=[f"{m}/PYTHONHASHSEED={h}" for m, h in pair], program=mod.render(cur))
        stats["failures"].append({"sig": sig, "detail": jsonable(detail), "case": jsonable(cur)})
    stats["nontrivial"] = sorted(stats["nontrivial"])
    stats["classes"] = dict(stats["classes"])
    stats["excluded"] = dict(stats["excluded"])
    stats["known_hits"] = dict(stats["known_hits"])
    return stats
