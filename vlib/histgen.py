"""Hypothesis strategy for manager histories (cases for C01/C02/C03/C11/C12/C13/C17/C18/C20).

A case is {"init": {loc_str: encoded value}, "ops": [op, ...]} - plain JSON.
Generation runs the *model* alongside (never xdeps), so every drawn operation is
valid in the state it is applied to:
  * true data flow stays acyclic by construction (reads are drawn from locations
    not downstream of the target),
  * the known-finding class K1 (ordering cycle through a shared nested container)
    is excluded by construction and counted,
  * an operation on which Python itself raises ends the history (flagged),
  * int magnitudes are bounded (E.TooBig) because Python ints are unbounded.
"""
from hypothesis import strategies as st

from . import expr as E
from . import gen as G
from . import world as W

INT_LIMIT = 10 ** 40

hist_ints = st.one_of(st.integers(-20, 20), st.sampled_from([0, 1, -1, 2, 3, 10, 100]))
hist_floats = st.one_of(
    st.integers(-80, 80).map(lambda n: n / 4.0),
    st.sampled_from([0.0, 0.5, 1.5, -2.25, 1e-3, 1e6]),
    st.floats(-1e3, 1e3, allow_nan=False).map(lambda x: round(x, 2)))
hist_numbers = st.one_of(hist_ints, hist_floats)


class Opts:
    def __init__(self, **kw):
        self.min_ops = 3
        self.max_ops = 30
        self.nested = True          # nested targets / reads
        self.proj = True            # (term).real / .imag, divmod(t, u)[i]: item / attribute of a computed value
        self.whole = True           # definitions that read a container as a whole: F['tot'](container)
        self.load = True            # Manager.load of a generated dump (repeated targets, overwrite on / off); needs maint
        self.ft_sinks = True        # function tasks with an empty target set
        self.ft_sink_one_in = 8
        self.inplace = True
        self.unreg = True
        self.setc = True
        self.ftasks = True
        self.knobs = True
        self.maint = True           # verify / cleanup / refresh / clone
        self.avoid_k1 = True
        self.risky_ops = True       # // % ** comparisons builtins (may make Python raise)
        self.calls = True
        self.comp = True
        self.eq = False
        self.divmod = False
        self.divmod_item = False    # divmod(t, u)[i] as a projection (needs proj)
        self.knob_single_target = False
        self.comp_one_in = 6        # frequency of computed-key reads (whole-container dependencies)
        self.math_builtins = True   # floor / ceil / trunc (print as bare names: excluded where text is re-evaluated)
        self.allow_raise = True     # keep a raising op as the last op (else drop it)
        self.weights = None
        self.depth = 3
        self.fresh = False          # assignment targets that do not exist yet (W.FRESH_LEAVES)
        for k, v in kw.items():
            if not hasattr(self, k):
                raise TypeError(k)
            setattr(self, k, v)


DEFAULT_WEIGHTS = {"sete": 34, "setv": 30, "inplace": 10, "unreg": 5, "setc": 5,
                   "regft": 4, "regknob": 4, "unregtask": 2, "maint": 3, "load": 3}


def init_strategy():
    d = {E.loc_str(k): hist_numbers for k in W.NUM_LEAVES}
    d[E.loc_str(W.IDX_LEAF)] = st.integers(0, 2)
    d[E.loc_str(W.KEY_LEAF)] = st.sampled_from(["p", "q"])
    return st.fixed_dictionaries(d)


class Gen:
    def __init__(self, draw, opts, stats=None):
        self.draw = draw
        self.o = opts
        self.excluded = {}
        init = draw(init_strategy())
        self.init = init
        self.model = W.Model(init)
        self.model.limit = INT_LIMIT
        self.ops = []
        self.nft = 0
        self.nkb = 0
        self.raised = False

    # ---- role bookkeeping
    def roles(self):
        m = self.model
        ft_targets, kb_targets, kb_sources, ft_deps = set(), set(), set(), set()
        for ft in m.ftasks.values():
            ft_targets.update(ft["targets"])
            ft_deps.update(ft["deps"])
        for kb in m.knobs.values():
            kb_targets.update(kb["targets"])
            kb_sources.add(kb["source"])
        return ft_targets, kb_targets, kb_sources, ft_deps

    def leaves(self):
        return W.NUM_LEAVES if self.o.nested else W.FLAT_LEAVES

    def targets(self):
        """locations an assignment may go to: the leaves, and (fresh=True) locations that do not exist yet"""
        if self.o.fresh and self.o.nested and self.draw(st.integers(0, 3)) == 0:
            return list(self.leaves()) + list(W.FRESH_LEAVES) * 3
        return self.leaves()

    def count_excl(self, why):
        self.excluded[why] = self.excluded.get(why, 0) + 1

    # ---- expressions
    def term_for(self, target, extra_forbidden=()):
        """AST whose reads are not downstream of (nor related to) `target`"""
        m = self.model
        forbidden = set(m.downstream_locs(target)) | {target} | set(extra_forbidden)
        cands = [k for k in self.leaves()
                 if not any(W.related(k, f) for f in forbidden)]
        if not cands:
            return None
        comp = []
        if self.o.comp and self.o.nested:
            for c, kloc in W.COMP:
                if any(W.related(c, f) for f in forbidden) or any(W.related(kloc, f) for f in forbidden):
                    continue
                comp.append((W.ast_loc(c), W.ast_loc(kloc)))
        ops = list(G.ARITH)
        builtins = ["abs"]
        if self.o.risky_ops:
            ops += G.DIVS + G.CMPS[:2]
            builtins += ["round"] + (["floor", "ceil", "trunc"] if self.o.math_builtins else [])
        fn = {k: W.ast_loc(W.L("F", W.I(k))) for k in W.FN_NAMES} if self.o.calls else {}
        conts = []
        if self.o.whole and self.o.nested and self.o.calls:
            conts = [W.ast_loc(c) for c in W.CONTAINERS if not any(W.related(c, f) for f in forbidden)]
        if not conts:
            fn.pop("tot", None)
        produced = set(m.written_by_task())
        weighted = cands + [k for k in cands if k in produced] * 3     # favour chains
        tg = G.TermGen([W.ast_loc(k) for k in weighted], [], fn, comp, lits=hist_numbers, ops=ops,
                       builtins=builtins, unary=["-", "+"], allow_eq=self.o.eq,
                       allow_divmod=self.o.divmod, divmod_item=self.o.divmod_item, comp_one_in=self.o.comp_one_in, cont_locs=conts, proj=self.o.proj)
        d = self.draw(st.integers(1, self.o.depth))
        ast = tg.term(self.draw, d)
        if self.o.risky_ops and self.draw(st.integers(0, 9)) == 0:
            # bounded power on a float-coerced base (ints would grow without bound)
            ast = ["bin", "**", ["bin", "*", ast, E.lit(1.0)], E.lit(self.draw(st.sampled_from([2, 3, -1, 0.5, 0])))]
        return ast

    def try_def(self, target, ast):
        """would defining target := ast enter the K1 class?"""
        m = self.model
        old = m.defs.get(target)
        m.defs.pop(target, None)
        m.defs[target] = ast
        bad = m.k1_now() is not None
        m.defs.pop(target)
        if old is not None:
            m.defs[target] = old
        return bad

    # ---- operation makers (return op dict or None)
    def mk_sete(self):
        ft_t, kb_t, kb_s, _ = self.roles()
        cands = [k for k in self.targets() if k not in ft_t and k not in kb_t and k not in kb_s]
        if not cands:
            return None
        for attempt in range(4):
            t = self.draw(st.sampled_from(cands))
            ast = self.term_for(t)
            if ast is None:
                continue
            if self.o.avoid_k1 and self.try_def(t, ast):
                self.count_excl("K1: definition would close an ordering cycle through a shared container")
                continue
            return {"op": "sete", "loc": W.json_loc(t), "ast": ast}
        return None

    def mk_setv(self):
        ft_t, kb_t, kb_s, _ = self.roles()
        cands = [k for k in self.targets() if k not in ft_t]
        extra = [W.IDX_LEAF, W.KEY_LEAF] if self.o.comp and self.o.nested else []
        # bias towards locations that something depends on
        m = self.model
        read = set()
        for t in m.tasks():
            read.update(t.reads)
        hot = [k for k in cands if any(W.related(k, r) for r in read)]
        deep = [k for k in hot if k not in m.defs and len(m.trigger_sets(k)[0]) >= 2]
        pick = self.draw(st.integers(0, 7))
        pool = deep if deep and pick >= 4 else (hot if hot and pick >= 1 else cands + extra)
        if not pool:
            pool = list(self.leaves())
        k = self.draw(st.sampled_from(pool))
        if k == W.IDX_LEAF:
            v = self.draw(st.integers(0, 2))
        elif k == W.KEY_LEAF:
            v = self.draw(st.sampled_from(["p", "q"]))
        elif k in kb_s or k in kb_t:
            v = self.draw(hist_floats)
        else:
            v = self.draw(hist_numbers)
        return {"op": "setv", "loc": W.json_loc(k), "v": E.enc(v)}

    def mk_inplace(self):
        ft_t, kb_t, kb_s, _ = self.roles()
        m = self.model
        cands = [k for k in self.leaves() if k not in ft_t and k not in kb_t and k not in kb_s]
        if not cands:
            return None
        defined = [k for k in cands if k in m.defs]
        pool = defined if defined and self.draw(st.booleans()) else cands
        t = self.draw(st.sampled_from(pool))
        iop = self.draw(st.sampled_from(["+", "-", "*", "/", "+", "-", "*", "//", "%", "**", "&", "|", "^", ">>"]))
        cur = m.get(t)
        if iop in ("&", "|", "^", ">>"):
            if not (isinstance(cur, int) and t not in m.defs):
                iop = "+"
        if iop == "**":
            operand = E.lit(self.draw(st.sampled_from([2, 3, 0, 1])))
            if not isinstance(cur, float):
                iop = "*"
        elif iop in ("&", "|", "^", ">>"):
            operand = E.lit(self.draw(st.integers(0, 7)))
        elif self.draw(st.integers(0, 9)) < 7:
            operand = E.lit(self.draw(hist_numbers))
        else:
            operand = self.term_for(t)
            if operand is None:
                operand = E.lit(self.draw(hist_numbers))
        if operand[0] != "lit" or t in m.defs:
            # the result is a definition: keep it out of K1
            new = ["bin", iop, m.defs[t] if t in m.defs else E.lit(cur), operand]
            if self.o.avoid_k1 and self.try_def(t, new):
                self.count_excl("K1: definition would close an ordering cycle through a shared container")
                return None
        return {"op": "inplace", "loc": W.json_loc(t), "iop": iop, "operand": operand}

    def mk_unreg(self):
        m = self.model
        if not m.defs:
            return None
        t = self.draw(st.sampled_from(sorted(m.defs, key=repr)))
        return {"op": "unreg", "loc": W.json_loc(t)}

    def mk_setc(self):
        m = self.model
        if not self.o.nested:
            return None
        written = set(m.written_by_task())
        cands = [c for c in W.CONTAINERS if not any(W.is_prefix(c, w) for w in written)]
        if not cands:
            self.count_excl("container holds an expression-defined member (outside the quantifier)")
            return None
        c = self.draw(st.sampled_from(cands))
        kind, keys = W.container_shape(c)
        n = 4 if kind == "dict1" else len(keys)
        vals = [self.draw(hist_numbers) for _ in range(n)]
        return {"op": "setc", "loc": W.json_loc(c), "values": [E.enc(v) for v in vals]}

    def mk_regft(self):
        m = self.model
        if self.nft >= 3:
            return None
        written = m.written_by_task()
        ft_t, kb_t, kb_s, _ = self.roles()
        free_flat = [k for k in W.FLAT_LEAVES if k not in written and k not in kb_s]
        if len(free_flat) < 2:
            return None
        targets = [self.draw(st.sampled_from(free_flat))]
        shape = self.draw(st.integers(0, 7))
        if self.o.ft_sinks and self.o.ft_sink_one_in < 8 and self.draw(st.integers(1, self.o.ft_sink_one_in)) == 1:
            shape = 2
        if shape in (0, 1):
            t2 = self.draw(st.sampled_from(free_flat))
            if t2 not in targets:
                targets.append(t2)
        elif shape == 2 and self.o.ft_sinks:
            targets = []        # a pure side-effect task: it writes nothing, only the run log shows that it ran
        forbidden = set(targets)
        for t in targets:
            forbidden |= set(m.downstream_locs(t))
        # the first dependency must be plain (it is re-assigned to bring the task up to date)
        dep0_c = [k for k in self.leaves() if k not in written and k not in forbidden
                  and k not in kb_s and not any(W.related(k, f) for f in forbidden)]
        if not dep0_c:
            return None
        deps = [self.draw(st.sampled_from(dep0_c))]
        more = [k for k in self.leaves() if not any(W.related(k, f) for f in forbidden) and k not in deps]
        if more and self.draw(st.booleans()):
            deps.append(self.draw(st.sampled_from(more)))
        name = f"ft{self.nft}"
        self.nft += 1
        op = {"op": "regft", "name": name, "deps": [W.json_loc(k) for k in deps],
              "targets": [W.json_loc(k) for k in targets], "fn": self.draw(st.sampled_from(sorted(W.FT_FUNCS)))}
        if self.o.avoid_k1:
            m.ftasks[name] = {"deps": deps, "targets": targets, "fn": op["fn"]}
            bad = m.k1_now() is not None
            del m.ftasks[name]
            if bad:
                self.count_excl("K1: task would close an ordering cycle through a shared container")
                return None
        return op

    def mk_regknob(self):
        m = self.model
        if self.nkb >= 2:
            return None
        written = m.written_by_task()
        ft_t, kb_t, kb_s, ft_d = self.roles()
        src_c = [k for k in W.FLAT_LEAVES if k not in written and k not in kb_s and k[0] != "F"]
        if not src_c:
            return None
        src = self.draw(st.sampled_from(src_c))
        tg_c = [k for k in W.FLAT_LEAVES if k not in written and k != src and k not in kb_s
                and src not in m.downstream_locs(k)]
        if not tg_c:
            return None
        targets = [self.draw(st.sampled_from(tg_c))]
        if not self.o.knob_single_target and self.draw(st.booleans()):
            t2 = self.draw(st.sampled_from(tg_c))
            if t2 not in targets:
                targets.append(t2)
        weights = [self.draw(st.sampled_from([1.0, 0.5, -2.0, 3.0, 0.25])) for _ in targets]
        name = f"kb{self.nkb}"
        self.nkb += 1
        return {"op": "regknob", "name": name, "source": W.json_loc(src), "weights": weights,
                "targets": [W.json_loc(k) for k in targets]}

    def mk_unregtask(self):
        m = self.model
        names = sorted(m.ftasks) + sorted(m.knobs)
        if not names:
            return None
        return {"op": "unregtask", "name": self.draw(st.sampled_from(names))}

    def mk_maint(self):
        kinds = ["verify", "cleanup", "refresh", "clone"]
        if self.model.defs and all(loadable(a) for a in self.model.defs.values()):
            # load(dump()): every definition is unregistered and registered again from its printed form
            kinds += ["loadself", "loadself"]
        return {"op": self.draw(st.sampled_from(kinds))}

    def mk_load(self):
        """a dump of 1..4 generated entries, a target possibly repeated, loaded with overwrite on or off"""
        m = self.model
        ft_t, kb_t, kb_s, _ = self.roles()
        cands = [k for k in self.leaves() if k not in ft_t and k not in kb_t and k not in kb_s]
        if not cands:
            return None
        overwrite = self.draw(st.sampled_from([True, True, False]))
        entries = []
        saved = list(m.defs.items())
        try:
            for _ in range(self.draw(st.integers(1, 4))):
                if entries and self.draw(st.integers(0, 2)) == 0:
                    t = W.tuple_loc(self.draw(st.sampled_from(entries))[0])
                else:
                    t = self.draw(st.sampled_from(cands))
                ast = None
                for attempt in range(4):
                    a = self.term_for(t)
                    if a is None or not loadable(a):
                        continue
                    if self.o.avoid_k1 and self.try_def(t, a):
                        self.count_excl("K1: definition would close an ordering cycle through a shared container")
                        continue
                    ast = a
                    break
                if ast is None:
                    continue
                entries.append([W.json_loc(t), ast])
                if t in m.defs:
                    if overwrite:
                        m.defs.pop(t)
                        m.defs[t] = ast
                else:
                    m.defs[t] = ast
        finally:
            m.defs.clear()
            m.defs.update(saved)
        if not entries:
            return None
        return {"op": "load", "entries": entries, "overwrite": overwrite}

    # ---- main loop
    def step(self, kinds=None):
        w = dict(DEFAULT_WEIGHTS if self.o.weights is None else self.o.weights)
        if not self.o.inplace:
            w.pop("inplace", None)
        if not self.o.unreg:
            w.pop("unreg", None)
        if not self.o.setc or not self.o.nested:
            w.pop("setc", None)
        if not self.o.ftasks:
            w.pop("regft", None)
        if not self.o.knobs:
            w.pop("regknob", None)
        if not (self.o.ftasks or self.o.knobs):
            w.pop("unregtask", None)
        if not self.o.maint:
            w.pop("maint", None)
        if not (self.o.load and self.o.maint):
            w.pop("load", None)
        if kinds is not None:
            w = {k: v for k, v in w.items() if k in kinds}
        bag = []
        for k, n in sorted(w.items()):
            bag += [k] * n
        kind = self.draw(st.sampled_from(bag))
        op = getattr(self, "mk_" + kind)()
        if op is None:
            op = self.mk_setv()
        return self.push(op)

    def push(self, op):
        """apply to the model; returns False when the history must end here"""
        m = self.model
        snapshot = None
        try:
            m.apply(op)
        except E.TooBig:
            self.count_excl("int magnitude bound (Python ints are unbounded)")
            self.raised = True
            return False            # op dropped; model state is unusable -> end
        except AssertionError:
            raise
        except Exception as e:
            if self.o.allow_raise:
                op = dict(op, expect_raise=type(e).__name__)
                self.ops.append(op)
            self.raised = True
            return False
        self.ops.append(op)
        return True

    def run(self):
        n = self.draw(st.integers(self.o.min_ops, self.o.max_ops))
        for _ in range(n):
            if not self.step():
                break
        return self.case()

    def case(self):
        return {"init": {k: E.enc(v) for k, v in self.init.items()}, "ops": self.ops,
                "excluded": dict(self.excluded)}


def loadable(ast):
    """can the printed form of this definition be evaluated back? (C11: K2 math builtins, K3 _eq/_neq and captured
    non-finite literals cannot)"""
    t = ast[0]
    if t == "lit":
        v = E.dec(ast[1])
        return not (isinstance(v, float) and (v != v or v in (float("inf"), float("-inf"))))
    if t in ("eq", "neq"):
        return False
    if t == "bi" and ast[1] in ("floor", "ceil", "trunc"):
        return False
    return all(loadable(x) for x in E.subterms(ast))


def histories(opts=None):
    opts = opts or Opts()

    @st.composite
    def s(draw):
        return Gen(draw, opts).run()
    return s()


def dec_init(case):
    return {k: E.dec(v) for k, v in case["init"].items()}
